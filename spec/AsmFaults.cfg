INIT Init
NEXT Next
