---------------------------- MODULE AsmStepEquiv ----------------------------
(* Binds the step machine of AsmStep.tla (whose safety Apalache proves for unbounded sizes) to AsmMech!One, the operator  *)
(* the trace specification compares the hook-reported steps of the real code with: for small constants TLC runs the step   *)
(* machine, records the steps it takes for each instruction, and checks at the end of every instruction (and at every      *)
(* failure) that position, capacity and step list are exactly what One yields from the same start.                         *)
EXTENDS AsmStep, Sequences, TLC
M == INSTANCE AsmMech
VARIABLES hist, p0, cap0
evars == <<vars, hist, p0, cap0>>

EInit ==
  /\ ext \in BOOLEAN /\ mode \in {"A", "F", "C"} /\ c \in 2..6
  /\ cap \in (IF ext THEN 0..14 ELSE {T + Q})
  /\ pos \in (IF ext THEN 0..cap ELSE 0..(cap + 3 * Q))       \* (a library-managed buffer: offsets up to three quanta beyond the capacity)
  /\ phase = "idle" /\ len = 1 /\ n = 0 /\ wlo = -1 /\ whi = -1
  /\ hist = <<>> /\ p0 = pos /\ cap0 = cap

SetOffsetSmall ==
  /\ phase = "idle"
  /\ pos' \in (IF ext THEN 0..cap ELSE 0..(cap + 3 * Q))
  /\ UNCHANGED <<cap, ext, mode, c, phase, len, n, wlo, whi>>
EBegin == Begin /\ hist' = <<>> /\ p0' = pos /\ cap0' = cap
\* the growth is a whole number of quanta (the part of GrowCap the unbounded step relation leaves out)
SmallRange == 0..80
ERoom  == Room /\ (cap' - cap) % Q = 0
               /\ hist' = (IF pos + T > cap /\ ~ext THEN Append(hist, M!Step("grow", cap, cap', cap')) ELSE hist) /\ UNCHANGED <<p0, cap0>>
ESetOffset == SetOffsetSmall /\ hist' = <<>> /\ p0' = pos' /\ cap0' = cap
EPad   == Pad /\ hist' = hist \o <<M!Step("trial", pos, len, cap), M!Step("pad", pos, Free, cap)>> /\ UNCHANGED <<p0, cap0>>
EEmit  == Emit /\ hist' = hist \o (IF mode = "F" THEN <<M!Step("trial", pos, len, cap)>> ELSE <<>>) \o <<M!Step("ins", pos, len, cap)>> /\ UNCHANGED <<p0, cap0>>
ENext  == EBegin \/ ERoom \/ EPad \/ EEmit \/ ESetOffset
ESpec  == EInit /\ [][ENext]_evars
Bound  == pos <= 40 /\ cap <= 60

SameAsOne ==
  LET r == M!One(p0, cap0, len, mode, c, ext, 0) IN
  /\ (phase = "idle" /\ hist # <<>>) => (r.ok /\ r.p = pos /\ r.cap = cap /\ r.steps = hist)
  /\ phase = "failed" => (~r.ok /\ r.p = pos /\ r.cap = cap /\ r.steps = hist)
\* and the safety property itself, on the bounded instance
SafeToo == Safe
=============================================================================
