----------------------------- MODULE ThreadTrace -----------------------------
(* Trace validation for C18: table accesses logged in their global order under  *)
(* the turn-based scheduler are replayed against the model of AsmThreads (same   *)
(* observed access sequences), and per-thread results are compared with the      *)
(* single-threaded reference.                                                    *)
EXTENDS AsmThreadsDefs
(* --------------------------- trace validation ------------------------------ *)
Tr == IF "TRACE" \in DOMAIN IOEnv THEN ndJsonDeserialize(IOEnv.TRACE) ELSE <<>>
VARIABLES l, ttb, tpc, trnd, nbad
tvars == <<l, ttb, tpc, trnd, nbad>>
Ev == Tr[l]
TInit == /\ l = 1 /\ ttb = [c \in Cells |-> 0] /\ tpc = [t \in 1..16 |-> 0] /\ trnd = [t \in 1..16 |-> 0] /\ nbad = 0
Say(why) == PrintT("BAD|x|" \o why \o "|" \o ToString(l) \o "|" \o Ev.e \o "|")
Adv(tb2, pc2, rnd2, why) ==
  /\ l' = l + 1 /\ ttb' = tb2 /\ tpc' = pc2 /\ trnd' = rnd2
  /\ nbad' = IF why = "" THEN nbad ELSE IF Say(why) THEN nbad + 1 ELSE nbad
TTbl == /\ Ev.e = "Tbl"
        /\ LET t == Ev.th
               acc == AccOf(t, trnd[t])
               k == tpc[t] + 1
               c == <<Ev.t, Ev.i>>
               a == IF k <= Len(acc) THEN acc[k] ELSE [s |-> -1, t |-> -1, i |-> -1, v |-> -1]
               why == IF a.s # Ev.s \/ a.t # Ev.t \/ a.i # Ev.i THEN "mech:access-sequence"
                      ELSE IF Ev.s = 1 /\ Ev.v # a.v THEN "mech:stored-value"
                      ELSE IF Ev.s = 0 /\ Ev.v # ttb[c] THEN "mech:load-does-not-see-model-state"
                      \* a lookup that starts from an unfinished table entry is only a sufficient condition for wrong results:
                      \* it is reported as drift; the verdict comes from the per-thread results and the race detector
                      ELSE IF Ev.s = 0 /\ Ev.v # Final[c] THEN "mech:lookup-saw-unfinished-table"
                      ELSE ""
               last == k >= Len(acc)
           IN Adv(IF Ev.s = 1 THEN [ttb EXCEPT ![c] = Ev.v] ELSE ttb,
                  [tpc EXCEPT ![t] = IF last THEN 0 ELSE k], [trnd EXCEPT ![t] = IF last THEN trnd[t] + 1 ELSE trnd[t]], why)
\* a thread obtains exactly the bytes, offset, return value and count it obtains running alone
TResult == /\ Ev.e = "Result"
           /\ Adv(ttb, tpc, trnd, IF Ev.ret = Ev.ref.ret /\ Ev.off = Ev.ref.off /\ Ev.dest = Ev.ref.dest /\ Ev.hash = Ev.ref.hash THEN ""
                                  ELSE "C18:result-differs-from-running-alone")
TTsan == /\ Ev.e = "Tsan" /\ Adv(ttb, tpc, trnd, IF Ev.reports = 0 /\ Ev.exit = 0 THEN "" ELSE "C18:data-race-or-crash")
TReset == /\ Ev.e = "Reset" /\ Adv([c \in Cells |-> IF ttb[c] = 0 THEN 0 ELSE ttb[c]], [t \in 1..16 |-> 0], [t \in 1..16 |-> 0], "")
TNext == l <= Len(Tr) /\ (TTbl \/ TResult \/ TTsan \/ TReset)
TSpec == TInit /\ [][TNext]_tvars
Accepted == TLCGet("stats").diameter - 1 = Len(Tr) /\ PrintT(<<"JUDGED", Len(Tr)>>)
=============================================================================
