----------------------------- MODULE GenCorpus -----------------------------
(* The quantifiers of the line-level properties as TLA+ sets (DESIGN 3.2).   *)
(* TLC enumerates the set selected by the environment variable CORPUS and    *)
(* writes it as ndjson to OUT; the harness renders each AST to text, runs    *)
(* the real library on it, and EncTrace judges what came back.               *)
EXTENDS AsmSyntax, Json, IOUtils

(* ------------------------------ registers ------------------------------- *)
G(w, n)  == RegRec("g", w, n, FALSE)
H(n)     == RegRec("g", 8, n, TRUE)                    \* ah ch dh bh = 4..7
Regs(w)  == {G(w, n) : n \in 0..15} \cup (IF w = 8 THEN {H(n) : n \in 4..7} ELSE {})
MM       == {RegRec("m", 64, n, FALSE) : n \in 0..7}
XMM      == {RegRec("x", 128, n, FALSE) : n \in 0..15}
YMM      == {RegRec("y", 256, n, FALSE) : n \in 0..15}
NeedsRex(r) == r.f = "g" /\ ((r.w = 8 /\ ~r.h /\ r.n >= 4) \/ r.n >= 8 \/ r.w = 64)
Legal(rs)   == ~(\E a \in rs, b \in rs : a.h /\ NeedsRex(b))
Pairs(w)    == {<<a, b>> : a \in Regs(w), b \in Regs(w)}
CL == G(8, 1)

(* ------------------------------ immediates ------------------------------ *)
B8(a, b, c, d, e, f, g, h) == <<a, b, c, d, e, f, g, h>>
Small(n) == B8(n, 0, 0, 0, 0, 0, 0, 0)
Im(neg, mag, radix, digits) == [k |-> "i", kw |-> "", neg |-> neg, mag |-> mag, radix |-> radix, digits |-> digits]
ImHex(n) == Im(FALSE, Small(n), "hex", 0)

(* ------------------------------- records -------------------------------- *)
Rec(prop, status, mn, opds) == [prop |-> prop, status |-> status, ast |-> [mn |-> mn, opds |-> opds]]
L1(mn, opds) == Rec("C01", "Supported", mn, opds)

(* ================================ C01 =================================== *)
\* two-operand, same width
C01_Two ==
  { L1(mn, <<p[1], p[2]>>) : mn \in Alu \cup {"mov", "test", "xchg"}, p \in UNION {Pairs(w) : w \in {8, 16, 32, 64}} }
C01_Cmov ==
  { L1(mn, <<p[1], p[2]>>) : mn \in Cmovs \cup {"imul"}, p \in UNION {Pairs(w) : w \in {16, 32, 64}} }
C01_Adx ==
  { L1(mn, <<p[1], p[2]>>) : mn \in {"adcx", "adox"}, p \in UNION {Pairs(w) : w \in {32, 64}} }
C01_Movzx ==
  { L1("movzx", <<a, b>>) : a \in Regs(16) \cup Regs(32) \cup Regs(64), b \in Regs(8) }
  \cup { L1("movzx", <<a, b>>) : a \in Regs(32) \cup Regs(64), b \in Regs(16) }
C01_One ==
  { L1(mn, <<a>>) : mn \in {"inc", "dec", "neg", "not", "imul"}, a \in UNION {Regs(w) : w \in {8, 16, 32, 64}} }
  \cup { L1(mn, <<a>>) : mn \in {"push", "pop"}, a \in Regs(16) \cup Regs(64) }
  \cup { L1(mn, <<a>>) : mn \in Setccs, a \in Regs(8) }
  \cup { L1(mn, <<a>>) : mn \in {"call", "jmp"}, a \in Regs(64) }
C01_Shift ==
  { L1(mn, <<a, ImHex(v)>>) : mn \in Shifts, a \in UNION {Regs(w) : w \in {8, 16, 32, 64}}, v \in {1, 5} }
  \cup { L1(mn, <<a, CL>>) : mn \in {"sal", "sar", "shl", "shr"}, a \in UNION {Regs(w) : w \in {8, 16, 32, 64}} }
C01_Shd ==
  { L1(mn, <<p[1], p[2], ImHex(7)>>) : mn \in {"shld", "shrd"}, p \in UNION {Pairs(w) : w \in {16, 32, 64}} }
  \cup { L1("shld", <<p[1], p[2], CL>>) : p \in UNION {Pairs(w) : w \in {16, 32, 64}} }
C01_Imul3 ==
  { L1("imul", <<p[1], p[2], ImHex(v)>>) : p \in UNION {Pairs(w) : w \in {16, 32, 64}}, v \in {3} }
C01_None == { L1(mn, <<>>) : mn \in NoOpd }

RegOpds(r) == {r.ast.opds[j] : j \in {k \in 1..Len(r.ast.opds) : r.ast.opds[k].k = "r"}}
CorpusC01 == { r \in C01_Two \cup C01_Cmov \cup C01_Adx \cup C01_Movzx \cup C01_One \cup C01_Shift \cup C01_Shd
                      \cup C01_Imul3 \cup C01_None : Legal(RegOpds(r)) }

(* ============================= selection ================================ *)
Selected == CASE IOEnv.CORPUS = "C01" -> CorpusC01
              [] OTHER -> {}
ASSUME PrintT(<<"CORPUS", IOEnv.CORPUS, Cardinality(Selected)>>)
ASSUME ndJsonSerialize(IOEnv.OUT, SetToSeq(Selected))
VARIABLE x
Init == x = 0
Next == UNCHANGED x
=============================================================================
