----------------------------- MODULE GenCorpus -----------------------------
(* The quantifiers of the line-level properties as TLA+ sets (DESIGN 3.2).   *)
(* TLC enumerates the set selected by the environment variable CORPUS and    *)
(* writes it as ndjson to OUT; the harness renders each AST to text, runs    *)
(* the real library on it, and EncTrace judges what came back.               *)
EXTENDS AsmSyntax, Json, IOUtils

(* ------------------------------ registers ------------------------------- *)
G(w, n)  == RegRec("g", w, n, FALSE)
H(n)     == RegRec("g", 8, n, TRUE)                    \* ah ch dh bh = 4..7
Regs(w)  == {G(w, n) : n \in 0..15} \cup (IF w = 8 THEN {H(n) : n \in 4..7} ELSE {})
MM       == {RegRec("m", 64, n, FALSE) : n \in 0..7}
XMM      == {RegRec("x", 128, n, FALSE) : n \in 0..15}
YMM      == {RegRec("y", 256, n, FALSE) : n \in 0..15}
NeedsRex(r) == r.f = "g" /\ ((r.w = 8 /\ ~r.h /\ r.n >= 4) \/ r.n >= 8 \/ r.w = 64)
Legal(rs)   == ~(\E a \in rs, b \in rs : a.h /\ NeedsRex(b))
Pairs(w)    == {<<a, b>> : a \in Regs(w), b \in Regs(w)}
CL == G(8, 1)
Xr(n) == RegRec("x", 128, n, FALSE)
Yr(n) == RegRec("y", 256, n, FALSE)
MMr(n) == RegRec("m", 64, n, FALSE)

(* ------------------------------ immediates ------------------------------ *)
B8(a, b, c, d, e, f, g, h) == <<a, b, c, d, e, f, g, h>>
Small(n) == B8(n, 0, 0, 0, 0, 0, 0, 0)
Im(neg, mag, radix, digits) == [k |-> "i", kw |-> "", neg |-> neg, mag |-> mag, radix |-> radix, digits |-> digits]
ImHex(n) == Im(FALSE, Small(n), "hex", 0)
ImDec(n) == Im(FALSE, Small(n), "dec", 0)

(* ------------------------------- records -------------------------------- *)
Rec(prop, status, mn, opds) == [prop |-> prop, status |-> status, ast |-> [mn |-> mn, opds |-> opds]]
L1(mn, opds) == Rec("C01", "Supported", mn, opds)

(* ================================ C01 =================================== *)
\* two-operand, same width
C01_Two(zz) ==
  { L1(mn, <<p[1], p[2]>>) : mn \in Alu \cup {"mov", "test", "xchg"}, p \in UNION {Pairs(w) : w \in {8, 16, 32, 64}} }
C01_Cmov(zz) ==
  { L1(mn, <<p[1], p[2]>>) : mn \in Cmovs \cup {"imul"}, p \in UNION {Pairs(w) : w \in {16, 32, 64}} }
C01_Adx(zz) ==
  { L1(mn, <<p[1], p[2]>>) : mn \in {"adcx", "adox"}, p \in UNION {Pairs(w) : w \in {32, 64}} }
C01_Movzx(zz) ==
  { L1("movzx", <<a, b>>) : a \in Regs(16) \cup Regs(32) \cup Regs(64), b \in Regs(8) }
  \cup { L1("movzx", <<a, b>>) : a \in Regs(32) \cup Regs(64), b \in Regs(16) }
C01_One(zz) ==
  { L1(mn, <<a>>) : mn \in {"inc", "dec", "neg", "not", "imul"}, a \in UNION {Regs(w) : w \in {8, 16, 32, 64}} }
  \cup { L1(mn, <<a>>) : mn \in {"push", "pop"}, a \in Regs(16) \cup Regs(64) }
  \cup { L1(mn, <<a>>) : mn \in Setccs, a \in Regs(8) }
  \cup { L1(mn, <<a>>) : mn \in {"call", "jmp"}, a \in Regs(64) }
C01_Shift(zz) ==
  { L1(mn, <<a, ImHex(v)>>) : mn \in Shifts, a \in UNION {Regs(w) : w \in {8, 16, 32, 64}}, v \in {1, 5} }
  \cup { L1(mn, <<a, CL>>) : mn \in {"sal", "sar", "shl", "shr"}, a \in UNION {Regs(w) : w \in {8, 16, 32, 64}} }
C01_Shd(zz) ==
  { L1(mn, <<p[1], p[2], ImHex(7)>>) : mn \in {"shld", "shrd"}, p \in UNION {Pairs(w) : w \in {16, 32, 64}} }
  \cup { L1("shld", <<p[1], p[2], CL>>) : p \in UNION {Pairs(w) : w \in {16, 32, 64}} }
C01_Imul3(zz) ==
  { L1("imul", <<p[1], p[2], ImHex(v)>>) : p \in UNION {Pairs(w) : w \in {16, 32, 64}}, v \in {3} }
C01_None(zz) == { L1(mn, <<>>) : mn \in NoOpd }

\* a size keyword in front of a REGISTER operand (nasm accepts the redundant keyword; the library's documentation mentions keywords for
\* memory operands only): the line may be rejected, an accepted one is the operation on the registers written
KWr(w) == CASE w = 8 -> "byte" [] w = 16 -> "word" [] w = 32 -> "dword" [] OTHER -> "qword"
GK(r, kw) == [k |-> "r", f |-> r.f, w |-> r.w, n |-> r.n, h |-> r.h, kw |-> kw]
M1(mn, opds) == Rec("C01", "MayReject", mn, opds)
KwRegs(w) == {G(w, n) : n \in {0, 3, 4, 5, 6, 7, 9, 12}} \cup (IF w = 8 THEN {H(4), H(7)} ELSE {})
C01_KwW(w) ==
     { M1(mn, <<GK(a, KWr(w)), b>>) : mn \in {"mov", "add", "cmp", "test"}, a \in KwRegs(w), b \in {G(w, 0), G(w, 6), G(w, 9)} }
\cup { M1(mn, <<b, GK(a, KWr(w))>>) : mn \in {"mov", "add", "cmp", "test"}, a \in KwRegs(w), b \in {G(w, 0), G(w, 6), G(w, 9)} }
\cup { M1(mn, <<GK(a, KWr(w))>>) : mn \in {"inc", "dec", "neg", "not"}, a \in KwRegs(w) }
\cup (IF w \in {16, 64} THEN { M1(mn, <<GK(a, KWr(w))>>) : mn \in {"push", "pop"}, a \in KwRegs(w) } ELSE {})
\cup { M1(mn, <<GK(a, KWr(w)), ImHex(1)>>) : mn \in {"add", "shl", "mov"}, a \in KwRegs(w) }
C01_Kw(zz) ==
  { r \in UNION {C01_KwW(w) : w \in {8, 16, 32, 64}}
\cup { M1(mn, <<GK(a, "byte")>>) : mn \in {"setc", "setnle"}, a \in KwRegs(8) }
\cup { M1("movzx", <<G(32, b), GK(a, "byte")>>) : a \in KwRegs(8), b \in {0, 9} }
\cup { M1("movzx", <<G(64, b), GK(a, "word")>>) : a \in KwRegs(16), b \in {0, 9} }
   : Legal({[f |-> o.f, w |-> o.w, n |-> o.n, h |-> o.h] : o \in {r.ast.opds[j] : j \in {q \in 1..Len(r.ast.opds) : r.ast.opds[q].k = "r"}}}) }

RegOpds(r) == {r.ast.opds[j] : j \in {k \in 1..Len(r.ast.opds) : r.ast.opds[k].k = "r"}}
CorpusC01(zz) == { r \in C01_Two(0) \cup C01_Cmov(0) \cup C01_Adx(0) \cup C01_Movzx(0) \cup C01_One(0) \cup C01_Shift(0) \cup C01_Shd(0)
                      \cup C01_Imul3(0) \cup C01_None(0) : Legal(RegOpds(r)) }

(* ================================ C02 =================================== *)
KW(w) == CASE w = 8 -> "byte" [] w = 16 -> "word" [] w = 32 -> "dword" [] w = 64 -> "qword" [] OTHER -> ""
D(neg, m, r) == [has |-> TRUE, neg |-> neg, m |-> m, r |-> r]
NoD == [has |-> FALSE, neg |-> FALSE, m |-> <<0, 0, 0, 0>>, r |-> "hex"]
Mem(kw, w, a, b, i, s, ord, d) ==
  [k |-> "m", kw |-> kw, far |-> FALSE, w |-> w, a |-> a, b |-> b, i |-> i, s |-> s, ord |-> ord,
   hasd |-> d.has, neg |-> d.neg, dm |-> d.m, dr |-> d.r]
ShapeOK(b, i, s, ord, d) ==
  /\ (i = -1 => s = 0)
  /\ (i = -1 /\ b = -1 => d.has)
  /\ (b = -1 /\ i >= 0 => s >= 1 /\ ord = "si")        \* documented spelling [scale*index +- disp]
  /\ (i = 4 => s = 0 /\ b >= 0 /\ b # 4)               \* the stack pointer only as unscaled index
  /\ (s = 0 => ord = "is")
DispMags == { <<1,0,0,0>>, <<127,0,0,0>>, <<128,0,0,0>>, <<129,0,0,0>>, <<255,0,0,0>>, <<0,1,0,0>>,
              <<255,127,0,0>>, <<0,128,0,0>>, <<255,255,255,127>>, <<120,86,52,18>>, <<239,205,171,9>> }
DispAll == {NoD, D(FALSE, <<0,0,0,0>>, "hex"), D(TRUE, <<0,0,0,128>>, "hex"), D(TRUE, <<0,0,0,0>>, "hex"), D(TRUE, <<0,0,0,0>>, "dec")}      \* (also "-0x0" and "-0")
           \cup {D(n, m, "hex") : n \in BOOLEAN, m \in DispMags}
           \cup {D(n, m, "dec") : n \in BOOLEAN, m \in {<<8,0,0,0>>, <<127,0,0,0>>, <<128,0,0,0>>, <<16,39,0,0>>}}
DispFew == {NoD, D(FALSE, <<16,0,0,0>>, "hex"), D(TRUE, <<128,0,0,0>>, "hex"), D(FALSE, <<69,35,1,0>>, "hex"), D(TRUE, <<0,0,0,0>>, "hex")}
\* (A) every base x every index at every scale, few displacements
ShapesA(a) == { Mem("", 0, a, b, i, s, ord, d) : b \in -1..15, i \in -1..15, s \in {0, 1, 2, 4, 8}, ord \in {"is", "si"}, d \in DispFew }
\* (B) the special registers at every scale and order with every displacement
ShapesB(a) == { Mem("", 0, a, b, i, s, ord, d) : b \in {-1, 0, 4, 5, 12, 13}, i \in {-1, 1, 4, 5, 9, 12, 13},
                                                  s \in {0, 1, 2, 4, 8}, ord \in {"is", "si"}, d \in DispAll }
\* (R) reduced product used under every other encoding class
ShapesR(a) == { Mem("", 0, a, b, i, s, ord, d) : b \in {-1, 0, 4, 5, 9, 12, 13}, i \in {-1, 1, 9, 13},
                                                  s \in {0, 4}, ord \in {"is", "si"},
                                                  d \in {NoD, D(FALSE, <<16,0,0,0>>, "hex"), D(TRUE, <<129,0,0,0>>, "hex"), D(FALSE, <<128,0,0,0>>, "dec")} }
OKShape(m) == ShapeOK(m.b, m.i, m.s, m.ord, [has |-> m.hasd])

Shapes32 == {m \in ShapesB(32) : OKShape(m) /\ (m.b >= 0 \/ m.i >= 0)}
ShapesRed == {m \in ShapesR(64) : OKShape(m)}
             \cup {m \in ShapesR(32) : OKShape(m) /\ m.b \in {-1, 0, 5, 12} /\ m.i \in {-1, 9} /\ (m.hasd => ~m.neg) /\ (m.b >= 0 \/ m.i >= 0)}
W(m, w, kw) == [m EXCEPT !.w = w, !.kw = kw]
L2(mn, opds) == Rec("C02", "Supported", mn, opds)
KwBoth(w) == {"", KW(w)}
C02_LeaA(zz) == { L2("lea", <<G(64, 1), m>>) : m \in {x \in ShapesA(64) : OKShape(x)} }
C02_LeaB(zz) == { L2("lea", <<G(64, 9), m>>) : m \in {x \in ShapesB(64) : OKShape(x)} }
C02_LeaC(zz) == { L2("lea", <<G(32, 1), m>>) : m \in Shapes32 }
C02_Class(m) ==
     { L2("add", <<W(m, r.w, kw), r>>) : r \in {G(8, 1), G(16, 1), G(32, 9), G(64, 1)}, kw \in {""} }
\cup { L2("mov", <<r, W(m, r.w, kw)>>) : r \in {G(8, 1), G(16, 10), G(32, 1), G(64, 9)}, kw \in {""} }
\cup { L2("sub", <<W(m, 64, "qword"), G(64, 2)>>), L2("xor", <<G(32, 2), W(m, 32, "dword")>>) }
\cup { L2(mn, <<G(w, 3), W(m, w, "")>>) : mn \in {"cmovne", "imul"}, w \in {16, 64} }
\cup { L2("adcx", <<G(64, 3), W(m, 64, "")>>), L2("adox", <<G(32, 11), W(m, 32, "")>>), L2("xchg", <<G(64, 3), W(m, 64, "")>>),
       L2("test", <<W(m, 32, ""), G(32, 3)>>) }
\cup { L2(mn, <<W(m, w, KW(w))>>) : mn \in {"inc", "dec", "neg", "not"}, w \in {8, 16, 32, 64} }
\cup { L2(mn, <<W(m, w, KW(w)), ImHex(5)>>) : mn \in {"add", "cmp", "test", "mov"}, w \in {8, 16, 32, 64} }
\cup { L2("and", <<W(m, w, KW(w)), Im(FALSE, <<69,35,1,0,0,0,0,0>>, "hex", 0)>>) : w \in {32, 64} }
\* the same with the immediate written in decimal (its own path in the tokenizer, taken after the memory operand was parsed)
\cup { L2(mn, <<W(m, w, KW(w)), ImDec(16)>>) : mn \in {"add", "cmp", "test", "mov"}, w \in {8, 64} }
\* ... and with all 16 hexadecimal digits (the spelling that decides SMART narrowing for mov r64, imm and must decide nothing else)
\cup { L2(mn, <<W(m, 64, "qword"), Im(FALSE, Small(16), "hex", 16)>>) : mn \in {"add", "cmp", "test", "mov"} }
\cup { L2("imul", <<G(64, 3), W(m, 64, ""), Im(FALSE, Small(16), "hex", 16)>>), L2("mov", <<W(m, 32, "dword"), Im(FALSE, Small(16), "hex", 16)>>) }
\cup { L2("mov", <<W(m, 32, "dword"), ImDec(100)>>), L2("shl", <<W(m, 64, "qword"), ImDec(5)>>), L2("imul", <<G(64, 3), W(m, 64, ""), ImDec(10)>>),
       L2("shld", <<W(m, 64, ""), G(64, 10), ImDec(3)>>), L2("rorx", <<G(64, 9), W(m, 64, ""), ImDec(7)>>),
       L2("vperm2i128", <<RegRec("y", 256, 1, FALSE), RegRec("y", 256, 2, FALSE), W(m, 256, ""), ImDec(5)>>) }
\cup { L2(mn, <<W(m, w, KW(w)), ImHex(v)>>) : mn \in {"shl", "sar", "rcr"}, w \in {8, 64}, v \in {1, 5} }
\cup { L2("shr", <<W(m, 32, "dword"), CL>>) }
\cup { L2("imul", <<G(64, 3), W(m, 64, ""), ImHex(5)>>) }
\cup { L2("shld", <<W(m, 64, ""), G(64, 10), ImHex(5)>>), L2("shld", <<W(m, 32, ""), G(32, 3), CL>>), L2("shrd", <<W(m, 16, ""), G(16, 3), ImHex(5)>>) }
\cup { L2(mn, <<W(m, 64, kw)>>) : mn \in {"push", "call", "jmp"}, kw \in {"", "qword"} }
\cup { L2(mn, <<[W(m, 80, "") EXCEPT !.far = TRUE]>>) : mn \in {"call", "jmp"} }
\cup { L2(mn, <<W(m, 8, kw)>>) : mn \in {"setc", "setnle"}, kw \in {"", "byte"} }
\cup { L2(mn, <<W(m, 8, "")>>) : mn \in {"clflush", "prefetchnta", "prefetcht0", "prefetcht1", "prefetcht2"} }
\cup { L2("movzx", <<G(32, 1), W(m, 8, "byte")>>), L2("movzx", <<G(64, 9), W(m, 16, "word")>>), L2("movzx", <<G(16, 1), W(m, 8, "byte")>>) }
\cup { L2("paddb", <<RegRec("m", 64, 1, FALSE), W(m, 64, "")>>), L2("pxor", <<RegRec("x", 128, 9, FALSE), W(m, 128, "")>>),
       L2("pmulld", <<RegRec("x", 128, 1, FALSE), W(m, 128, "")>>), L2("movntdqa", <<RegRec("x", 128, 1, FALSE), W(m, 128, "")>>),
       L2("movd", <<RegRec("x", 128, 1, FALSE), W(m, 32, "")>>), L2("movd", <<W(m, 32, ""), RegRec("x", 128, 9, FALSE)>>),
       L2("movq", <<RegRec("x", 128, 1, FALSE), W(m, 64, "")>>), L2("movq", <<W(m, 64, ""), RegRec("x", 128, 9, FALSE)>>),
       L2("movntq", <<W(m, 64, ""), RegRec("m", 64, 1, FALSE)>>) }
\cup { L2("vpaddb", <<RegRec("y", 256, 1, FALSE), RegRec("y", 256, 9, FALSE), W(m, 256, "")>>),
       L2("vpxor", <<RegRec("x", 128, 9, FALSE), RegRec("x", 128, 1, FALSE), W(m, 128, "")>>),
       L2("vpmulld", <<RegRec("y", 256, 1, FALSE), RegRec("y", 256, 2, FALSE), W(m, 256, "")>>),
       L2("vpermd", <<RegRec("y", 256, 1, FALSE), RegRec("y", 256, 2, FALSE), W(m, 256, "")>>),
       L2("vperm2i128", <<RegRec("y", 256, 1, FALSE), RegRec("y", 256, 2, FALSE), W(m, 256, ""), ImHex(5)>>),
       L2("vmovdqu", <<RegRec("y", 256, 1, FALSE), W(m, 256, "")>>), L2("vmovdqu", <<W(m, 256, ""), RegRec("y", 256, 9, FALSE)>>),
       L2("vmovupd", <<RegRec("x", 128, 9, FALSE), W(m, 128, "")>>), L2("vmovupd", <<W(m, 128, ""), RegRec("x", 128, 1, FALSE)>>) }
\* the same vector / BMI forms with the size keyword written out
\cup { L2("movd", <<RegRec("x", 128, 1, FALSE), W(m, 32, "dword")>>), L2("movd", <<W(m, 32, "dword"), RegRec("x", 128, 9, FALSE)>>),
       L2("movq", <<RegRec("x", 128, 1, FALSE), W(m, 64, "qword")>>), L2("movq", <<W(m, 64, "qword"), RegRec("x", 128, 9, FALSE)>>),
       L2("paddb", <<RegRec("m", 64, 1, FALSE), W(m, 64, "qword")>>), L2("movntq", <<W(m, 64, "qword"), RegRec("m", 64, 1, FALSE)>>),
       L2("bzhi", <<G(32, 1), W(m, 32, "dword"), G(32, 10)>>), L2("mulx", <<G(64, 1), G(64, 10), W(m, 64, "qword")>>), L2("rorx", <<G(32, 9), W(m, 32, "dword"), ImHex(5)>>),
       L2("adcx", <<G(64, 3), W(m, 64, "qword")>>), L2("cmovne", <<G(32, 3), W(m, 32, "dword")>>), L2("imul", <<G(16, 3), W(m, 16, "word")>>) }
\cup { L2("bzhi", <<G(w, 1), W(m, w, ""), G(w, 10)>>) : w \in {32, 64} }
\cup { L2("mulx", <<G(w, 1), G(w, 10), W(m, w, "")>>) : w \in {32, 64} }
\cup { L2("rorx", <<G(w, 9), W(m, w, ""), ImHex(5)>>) : w \in {32, 64} }
\* further width / register-class variants of the memory-taking forms (slice C02h)
NoRexMem(m) == m.b < 8 /\ m.i < 8
C02_Class2(m) ==
     { L2(mn, <<G(w, 11), W(m, w, "")>>) : mn \in {"xchg", "cmovb", "imul", "and", "cmp"}, w \in {16, 32} }
\cup { L2("xchg", <<G(8, 6), W(m, 8, "")>>), L2("xchg", <<G(64, 0), W(m, 64, "")>>), L2("xchg", <<G(32, 0), W(m, 32, "")>>) }
\cup { L2("test", <<W(m, w, ""), G(w, 12)>>) : w \in {8, 16, 64} }
\cup { L2(mn, <<W(m, w, ""), G(w, 0)>>) : mn \in {"or", "sbb", "mov"}, w \in {8, 16, 32, 64} }
\cup { L2("movzx", <<G(32, 9), W(m, 16, "word")>>), L2("movzx", <<G(64, 1), W(m, 8, "byte")>>), L2("movzx", <<G(16, 9), W(m, 8, "byte")>>) }
\cup { L2("adcx", <<G(32, 9), W(m, 32, "")>>), L2("adox", <<G(64, 1), W(m, 64, "")>>) }
\cup { L2(mn, <<W(m, w, KW(w)), ImHex(v)>>) : mn \in {"shl", "shr", "sal", "sar", "rcr"}, w \in {16, 32}, v \in {1, 31} }
\cup { L2(mn, <<W(m, w, KW(w)), CL>>) : mn \in {"shl", "sar", "sal"}, w \in {8, 16, 64} }
\cup { L2(mn, <<W(m, w, KW(w)), Im(FALSE, <<120,86,0,0,0,0,0,0>>, "hex", 0)>>) : mn \in {"adc", "xor", "sub", "mov", "test"}, w \in {16, 32, 64} }
\cup { L2(mn, <<W(m, w, KW(w)), Im(TRUE, <<1,0,0,0,0,0,0,0>>, "hex", 0)>>) : mn \in {"or", "cmp", "mov"}, w \in {8, 16, 32, 64} }
\cup { L2("imul", <<G(w, 9), W(m, w, ""), Im(TRUE, <<16,0,0,0,0,0,0,0>>, "hex", 0)>>) : w \in {16, 32} }
\cup { L2(mn, <<W(m, 8, "byte")>>) : mn \in Setccs }
\cup { L2("lea", <<G(w, 12), W(m, 0, "")>>) : w \in {16, 32} }
\cup (IF NoRexMem(m) THEN
        { L2(mn, <<H(h), W(m, 8, "")>>) : mn \in {"mov", "add", "xchg", "cmp"}, h \in {4, 7} }
   \cup { L2(mn, <<W(m, 8, ""), H(h)>>) : mn \in {"mov", "xor", "test"}, h \in {5, 6} }
   \cup { L2("movzx", <<G(32, 1), W(m, 8, "byte")>>) }
      ELSE {})
\cup { L2(mn, <<Xr(a), W(m, 128, "")>>) : mn \in {"paddq", "pmuldq"}, a \in {0, 15} }
\cup { L2(mn, <<MMr(a), W(m, 64, "")>>) : mn \in {"psubw", "por", "pmulhrsw"}, a \in {0, 7} }
\cup { L2(mn, <<Yr(a), Yr(b), W(m, 256, "")>>) : mn \in {"vaddpd", "vpand", "vpmuldq", "vpsubq"}, a \in {0, 15}, b \in {7, 8} }
\cup { L2(mn, <<Xr(a), Xr(b), W(m, 128, "")>>) : mn \in {"vpaddw", "vpmulhrsw", "vpor"}, a \in {0, 15}, b \in {7, 8} }
\cup { L2(mn, <<G(w, 15), W(m, w, ""), G(w, 0)>>) : mn \in {"bextr", "sarx", "shlx", "shrx"}, w \in {32, 64} }
\cup { L2("vperm2f128", <<Yr(15), Yr(0), W(m, 256, ""), ImHex(49)>>) }
\* every memory-taking row of the library's table at least once per width and register class (mnemonic coverage: few shapes)
MemT == { Mem("", 0, 64, 3, -1, 0, "is", NoD), Mem("", 0, 64, 13, 9, 4, "is", D(FALSE, <<16,0,0,0>>, "hex")), Mem("", 0, 32, 1, 10, 2, "is", D(TRUE, <<0,1,0,0>>, "hex")),
          Mem("", 0, 64, 4, -1, 0, "is", D(FALSE, <<69,35,1,0>>, "hex")) }
C02_Table(zz) ==
     { L2(mn, <<W(m, w, ""), G(w, n)>>) : mn \in Alu \cup {"test", "mov", "xchg"}, w \in {8, 16, 32, 64}, n \in {3, 10}, m \in MemT }
\cup { L2(mn, <<G(w, n), W(m, w, "")>>) : mn \in Alu \cup {"mov", "xchg"}, w \in {8, 16, 32, 64}, n \in {3, 10}, m \in MemT }
\cup { L2(mn, <<G(w, n), W(m, w, "")>>) : mn \in Cmovs \cup {"imul"}, w \in {16, 32, 64}, n \in {1, 12}, m \in MemT }
\cup { L2(mn, <<G(w, n), W(m, w, "")>>) : mn \in {"adcx", "adox"}, w \in {32, 64}, n \in {1, 12}, m \in MemT }
\cup { L2(mn, <<W(m, 8, kw)>>) : mn \in Setccs, kw \in {"", "byte"}, m \in MemT }
\cup { L2(mn, <<W(m, w, KW(w)), x>>) : mn \in Shifts, w \in {8, 16, 32, 64}, x \in {ImHex(1), ImHex(7), CL}, m \in MemT }
\cup { L2(mn, <<MMr(a), W(m, 64, "")>>) : mn \in {x \in Packed16 \cup {"pand"} : "rm" \in LibForms(x)}, a \in {1, 7}, m \in MemT }
\cup { L2(mn, <<Xr(a), W(m, 128, "")>>) : mn \in {x \in Packed16 \cup {"pand", "pmulld", "pmuldq", "cvtdq2pd", "cvtpd2dq", "divpd", "mulpd", "punpcklqdq"} : "vm" \in LibForms(x)},
                                          a \in {1, 9}, m \in MemT }
\cup { L2(mn, <<Xr(a), Xr(b), W(m, 128, "")>>) : mn \in {x \in VexPacked : "vvm" \in LibForms(x)}, a \in {1, 9}, b \in {2, 15}, m \in MemT }
\cup { L2(mn, <<Yr(a), Yr(b), W(m, 256, "")>>) : mn \in {x \in VexPacked \cup VOnly256 : "yym" \in LibForms(x)}, a \in {1, 9}, b \in {2, 15}, m \in MemT }
\cup { L2(mn, <<G(w, 1), W(m, w, ""), G(w, 10)>>) : mn \in Bmi, w \in {32, 64}, m \in MemT }
\cup { L2(mn, <<W(m, w, KW(w))>>) : mn \in {"inc", "dec", "neg", "not", "mul", "div", "idiv", "imul"} \cap Mnemonics, w \in {8, 16, 32, 64}, m \in MemT }
\* the index part written in FRONT of the base ([2*rax+rbx], [rax*4+r8-0x10]): an order the library does not document (it may reject
\* the line), but the same address - an accepted line must encode base and index as written
ShapesLate == { Mem("", 0, a, b, i, s, ord, d) : a \in {64, 32}, b \in {0, 3, 5, 8, 12, 13}, i \in {0, 1, 9, 13}, s \in {1, 2, 4, 8}, ord \in {"sb", "ib"},
                                                d \in {NoD, D(FALSE, <<16,0,0,0>>, "hex"), D(TRUE, <<129,0,0,0>>, "hex")} }
C02_Late(zz) ==
     { Rec("C02", "MayReject", "lea", <<G(64, 1), m>>) : m \in ShapesLate }
\cup { Rec("C02", "MayReject", "mov", <<G(64, 9), W(m, 64, "")>>) : m \in {x \in ShapesLate : x.s \in {1, 4}} }
\cup { Rec("C02", "MayReject", "add", <<W(m, 32, "dword"), ImHex(5)>>) : m \in {x \in ShapesLate : x.s \in {2, 8} /\ ~x.hasd} }
\cup { Rec("C02", "MayReject", "vpaddb", <<Yr(1), Yr(2), W(m, 256, "")>>) : m \in {x \in ShapesLate : x.s = 4 /\ x.a = 64} }
C02_Cls2(sel(_)) == UNION {C02_Class2(m) : m \in {x \in ShapesRed : sel(x)}}
C02_Cls(sel(_)) == UNION {C02_Class(m) : m \in {x \in ShapesRed : sel(x)}}
\* the stack pointer as (unscaled) index under every encoding class - the shape NASM-style swapping rewrites - with every kind of base
ShapesSp == { Mem("", 0, a, b, 4, 0, "is", d) : a \in {64, 32}, b \in {0, 3, 5, 8, 9, 12, 13, 15}, d \in {NoD, D(FALSE, <<16,0,0,0>>, "hex"), D(TRUE, <<129,0,0,0>>, "hex")} }
C02_Sp(zz) == UNION {C02_Class(m) \cup C02_Class2(m) : m \in ShapesSp}

(* ================================ C03 =================================== *)
Mag8(lo4, hi4) == lo4 \o hi4
Z4 == <<0, 0, 0, 0>>
ImmMags == { Mag8(<<0,0,0,0>>, Z4), Mag8(<<1,0,0,0>>, Z4), Mag8(<<127,0,0,0>>, Z4), Mag8(<<128,0,0,0>>, Z4), Mag8(<<129,0,0,0>>, Z4),
             Mag8(<<224,0,0,0>>, Z4), Mag8(<<225,0,0,0>>, Z4), Mag8(<<255,0,0,0>>, Z4), Mag8(<<0,1,0,0>>, Z4),
             Mag8(<<255,127,0,0>>, Z4), Mag8(<<0,128,0,0>>, Z4), Mag8(<<255,255,0,0>>, Z4), Mag8(<<0,0,1,0>>, Z4),
             Mag8(<<255,255,255,127>>, Z4), Mag8(<<0,0,0,128>>, Z4), Mag8(<<1,0,0,128>>, Z4), Mag8(<<255,255,255,255>>, Z4),
             Mag8(Z4, <<1,0,0,0>>), Mag8(<<255,255,255,255>>, <<255,255,255,127>>), Mag8(Z4, <<0,0,0,128>>),
             Mag8(<<255,255,255,255>>, <<255,255,255,255>>),
             Mag8(<<120,86,52,18>>, Z4), Mag8(<<240,222,188,154>>, <<120,86,52,18>>), Mag8(<<17,34,51,68>>, <<85,102,119,8>>),
             Mag8(<<128,255,255,255>>, Z4), Mag8(<<127,255,255,255>>, Z4), Mag8(<<254,255,255,255>>, Z4), Mag8(<<129,255,255,255>>, Z4),
             Mag8(<<128,255,0,0>>, Z4), Mag8(<<127,255,0,0>>, Z4), Mag8(<<254,255,0,0>>, Z4), Mag8(<<254,0,0,0>>, Z4), Mag8(<<0,128,255,255>>, Z4),
             Mag8(<<66,0,0,0>>, Z4), Mag8(<<57,48,0,0>>, Z4), Mag8(<<177,104,222,58>>, Z4), Mag8(<<21,205,91,7>>, <<0,0,0,0>>),
             Mag8(<<239,190,173,222>>, Z4), Mag8(<<190,186,254,202>>, <<239,190,173,222>>) }
ImmVals == { Im(n, m, r, 0) : n \in BOOLEAN, m \in ImmMags, r \in {"hex", "dec"} }
           \ { Im(TRUE, m, r, 0) : m \in {x \in ImmMags : x[8] >= 128 /\ x # Mag8(Z4, <<0,0,0,128>>)}, r \in {"hex", "dec"} }
ImmVals16d == { Im(FALSE, m, "hex", 16) : m \in ImmMags }        \* written with all 16 hex digits
L3(mn, opds) == Rec("C03", "Supported", mn, opds)
MemD == { Mem("", 0, 64, 0, -1, 0, "is", D(FALSE, <<16,0,0,0>>, "hex")), Mem("", 0, 64, 1, -1, 0, "is", NoD),
          Mem("", 0, 64, 9, 1, 4, "is", NoD), Mem("", 0, 64, 0, -1, 0, "is", NoD) }
C03_All(zz) ==
     { L3(mn, <<G(w, n), v>>) : mn \in Alu \cup {"test", "mov"}, w \in {8, 16, 32, 64}, n \in {0, 1, 9}, v \in ImmVals }
\cup { L3(mn, <<H(n), v>>) : mn \in Alu \cup {"test", "mov"}, n \in 4..7, v \in {x \in ImmVals : x.radix = "hex"} }        \* ah ch dh bh
\cup { L3("mov", <<G(64, n), v>>) : n \in {0, 3, 12}, v \in ImmVals16d }
\* ... and with 13, 14, 15 digits: one and two short of "zero padded to 64 bits exactly" (SMART still narrows)
\cup { L3("mov", <<G(64, n), Im(FALSE, m, "hex", dg)>>) : n \in {0, 12}, dg \in {13, 14, 15}, m \in {x \in ImmMags : x[5] = 0 /\ x[6] = 0 /\ x[7] = 0 /\ x[8] = 0} }
\cup { L3("mov", <<G(64, n), Im(FALSE, m, "dec", dg)>>) : n \in {0, 12}, dg \in {17, 18, 19, 22}, m \in {x \in ImmMags : x[5] = 0 /\ x[6] = 0 /\ x[7] = 0 /\ x[8] = 0} }
\cup { L3(mn, <<W(m, w, KW(w)), v>>) : mn \in Alu \cup {"test", "mov"}, w \in {8, 16, 32, 64}, m \in MemD, v \in ImmVals }
\* ... and destinations whose address has no 64-bit base register (index only, absolute, 32-bit address registers)
\cup { L3(mn, <<W(m, w, KW(w)), v>>) : mn \in {"mov", "add", "test"}, w \in {8, 16, 32, 64},
         m \in { Mem("", 0, 64, -1, 1, 4, "si", NoD), Mem("", 0, 64, -1, 7, 1, "si", NoD), Mem("", 0, 64, -1, 1, 2, "si", NoD),
                 Mem("", 0, 64, -1, -1, 0, "is", D(FALSE, <<0,16,0,0>>, "hex")), Mem("", 0, 32, 0, -1, 0, "is", NoD), Mem("", 0, 32, 9, -1, 0, "is", D(FALSE, <<4,0,0,0>>, "hex")) },
         v \in {x \in ImmVals : x.radix = "hex" /\ (x.neg \/ x.mag[8] = 255 \/ x.mag \in {Small(5), Small(128)})} }
\cup { L3("imul", <<G(w, 1), G(w, 9), v>>) : w \in {16, 32, 64}, v \in ImmVals }
\cup { L3("imul", <<G(w, n), W(m, w, IF kwb THEN KW(w) ELSE ""), v>>) : w \in {16, 32, 64}, n \in {1, 9}, m \in {x \in MemD : x.b \in {1, 9}}, kwb \in BOOLEAN, v \in ImmVals }
\cup { L3("push", <<v>>) : v \in ImmVals }
\cup { L3(mn, <<G(w, 1), v>>) : mn \in Shifts, w \in {8, 64}, v \in ImmVals }
\cup { L3(mn, <<G(32, 1), G(32, 9), v>>) : mn \in {"shld", "shrd"}, v \in ImmVals }
\cup { L3("rorx", <<G(64, 1), G(64, 9), v>>) : v \in ImmVals }
\cup { L3("psrldq", <<RegRec("x", 128, 9, FALSE), v>>) : v \in ImmVals }
\cup { L3("vperm2i128", <<RegRec("y", 256, 1, FALSE), RegRec("y", 256, 9, FALSE), RegRec("y", 256, 2, FALSE), v>>) : v \in ImmVals }
\cup { L3("xabort", <<v>>) : v \in ImmVals }
\* a size keyword in front of an immediate that follows other operands (nasm: a hint for the width of the immediate): not a documented
\* spelling, so the line may be rejected - but when it is accepted it must be the operation at the size of its other operands
ImK(kw, n) == [ImHex(n) EXCEPT !.kw = kw]
M3(mn, opds) == Rec("C03", "MayReject", mn, opds)
C03_Kw(zz) ==
     { M3(mn, <<G(w, n), ImK(IF kb THEN "byte" ELSE KW(w), v)>>) : mn \in Alu \cup {"test", "mov"}, w \in {16, 32, 64}, n \in {0, 1, 9}, kb \in BOOLEAN, v \in {5, 127} }
\cup { M3(mn, <<G(w, n), [Im(neg, Small(v), "hex", 0) EXCEPT !.kw = kw]>>) : mn \in {"mov", "add", "cmp", "test", "and"}, w \in {32, 64}, n \in {0, 9},
         kw \in {"byte", "word", "dword", "qword"}, neg \in BOOLEAN, v \in {1, 100} }
\cup { M3(mn, <<G(64, 1), [Im(neg, Small(5), "hex", 0) EXCEPT !.kw = kw]>>) : mn \in Shifts, kw \in {"word", "dword", "qword"}, neg \in {FALSE} }
\cup { M3(mn, <<W(m, w, KW(w)), ImK(IF kb THEN "byte" ELSE KW(w), 5)>>) : mn \in {"add", "cmp", "mov", "test"}, w \in {8, 32, 64}, m \in MemD, kb \in BOOLEAN }
\cup { M3(mn, <<G(w, 1), ImK("byte", v)>>) : mn \in Shifts, w \in {16, 32, 64}, v \in {1, 5} }
\cup { M3(mn, <<W(m, w, ""), ImK(KW(w), 5)>>) : mn \in {"add", "cmp", "mov", "test"}, w \in {8, 16, 32, 64}, m \in MemD }      \* (mov [rax], byte 5: the keyword sizes the store)
\cup { M3("imul", <<G(w, 1), G(w, 9), ImK(IF kb THEN "byte" ELSE KW(w), 5)>>) : w \in {16, 32, 64}, kb \in BOOLEAN }
\cup { M3(mn, <<G(w, 1), G(w, 9), ImK("byte", 5)>>) : mn \in {"shld", "shrd"}, w \in {16, 32, 64} }
\cup { M3("rorx", <<G(w, 1), G(w, 9), ImK("byte", 5)>>) : w \in {32, 64} }
\cup { M3("psrldq", <<RegRec("x", 128, 9, FALSE), ImK("byte", 5)>>),
       M3("vperm2i128", <<RegRec("y", 256, 1, FALSE), RegRec("y", 256, 9, FALSE), RegRec("y", 256, 2, FALSE), ImK("byte", 5)>>) }
CorpusC03(zz) == { [prop |-> y.prop, status |-> y.status, ast |-> y.ast,
                 flags |-> IF IsMovR64Imm(y.ast) /\ y.ast.opds[1].n = 0 THEN "x" ELSE "-"] :
               y \in {z \in C03_All(0) : Representable(z.ast)} }

(* ================================ C04 =================================== *)
L4(mn, opds) == Rec("C04", "Supported", mn, opds)
Corner == {0, 7, 8, 15}
VFull == {"vpaddb", "vpmulld", "vpxor"}            \* one per (map, W) row class gets the full product
C04_Mmx(zz) == { L4(mn, <<MMr(a), MMr(b)>>) : mn \in Packed16 \cup {"pand"}, a \in 0..7, b \in 0..7 }
C04_Sse(zz) == { L4(mn, <<Xr(a), Xr(b)>>) : mn \in Packed16 \cup {"pand", "pmulld", "pmuldq", "cvtdq2pd", "cvtpd2dq", "divpd", "mulpd", "punpcklqdq", "movq"},
                                       a \in 0..15, b \in 0..15 }
C04_Mov(zz) == { L4("movd", <<Xr(a), G(32, b)>>) : a \in 0..15, b \in 0..15 } \cup { L4("movd", <<G(32, b), Xr(a)>>) : a \in 0..15, b \in 0..15 }
      \cup { L4("movq", <<Xr(a), G(64, b)>>) : a \in 0..15, b \in 0..15 } \cup { L4("movq", <<G(64, b), Xr(a)>>) : a \in 0..15, b \in 0..15 }
      \cup { L4("psrldq", <<Xr(a), ImHex(v)>>) : a \in 0..15, v \in {0, 5, 127, 128, 255} }
Tri(S) == {<<a, b, c>> : a \in S, b \in S, c \in S}
C04_VexX(mns, trip) == { L4(mn, <<Xr(t[1]), Xr(t[2]), Xr(t[3])>>) : mn \in mns, t \in trip }
C04_VexY(mns, trip) == { L4(mn, <<Yr(t[1]), Yr(t[2]), Yr(t[3])>>) : mn \in mns, t \in trip }
C04_VexRest(zz) == C04_VexX(VexPacked, Tri(Corner)) \cup C04_VexY(VexPacked \cup VOnly256, Tri(Corner))
C04_VMov(zz) == { L4(mn, <<Xr(a), Xr(b)>>) : mn \in {"vmovupd", "vmovdqu"}, a \in 0..15, b \in 0..15 }
       \cup { L4(mn, <<Yr(a), Yr(b)>>) : mn \in {"vmovupd", "vmovdqu"}, a \in 0..15, b \in 0..15 }
       \cup { L4(mn, <<Yr(t[1]), Yr(t[2]), Yr(t[3]), ImHex(v)>>) : mn \in {"vperm2i128", "vperm2f128"}, t \in Tri(Corner \cup {3, 12}), v \in {0, 49, 128, 255} }
C04_Bmi(full) ==
     { L4(mn, <<G(w, t[1]), G(w, t[2]), G(w, t[3])>>) : mn \in Bmi \cup {"mulx"}, w \in {32, 64}, t \in IF full THEN Tri(0..15) ELSE Tri(Corner) }
\cup { L4("rorx", <<G(w, a), G(w, b), ImHex(v)>>) : w \in {32, 64}, a \in 0..15, b \in 0..15, v \in {0, 5, 63, 128, 255} }
C04_BmiFull(zz) == { r \in C04_Bmi(TRUE) : r.ast.mn \in {"bzhi", "mulx"} }
MemV == { Mem("", 0, 64, 0, -1, 0, "is", NoD), Mem("", 0, 64, 12, -1, 0, "is", D(FALSE, <<16,0,0,0>>, "hex")),
          Mem("", 0, 64, 13, 9, 4, "is", NoD), Mem("", 0, 64, 1, 15, 8, "is", D(TRUE, <<0,1,0,0>>, "hex")),
          Mem("", 0, 64, 5, -1, 0, "is", NoD), Mem("", 0, 64, 4, 1, 2, "is", D(FALSE, <<127,0,0,0>>, "hex")),
          Mem("", 0, 32, 0, 9, 1, "is", NoD), Mem("", 0, 64, -1, -1, 0, "is", D(FALSE, <<0,16,0,0>>, "hex")) }
C04_MemForms(zz) ==
     { L4(mn, <<MMr(a), W(m, 64, "")>>) : mn \in Packed16, a \in {0, 7}, m \in MemV }
\cup { L4(mn, <<Xr(a), W(m, 128, "")>>) : mn \in Packed16 \cup {"pmulld", "pmuldq", "movntdqa"}, a \in {0, 7, 8, 15}, m \in MemV }
\cup { L4(mn, <<Xr(a), Xr(b), W(m, 128, "")>>) : mn \in VexPacked, a \in {0, 15}, b \in {7, 8}, m \in MemV }
\cup { L4(mn, <<Yr(a), Yr(b), W(m, 256, "")>>) : mn \in VexPacked \cup VOnly256, a \in {0, 15}, b \in {7, 8}, m \in MemV }
\cup { L4(mn, <<Yr(a), W(m, 256, "")>>) : mn \in {"vmovupd", "vmovdqu"}, a \in Corner, m \in MemV }
\cup { L4(mn, <<W(m, 256, ""), Yr(a)>>) : mn \in {"vmovupd", "vmovdqu"}, a \in Corner, m \in MemV }
\cup { L4(mn, <<Xr(a), W(m, 128, "")>>) : mn \in {"vmovupd", "vmovdqu"}, a \in Corner, m \in MemV }
\cup { L4(mn, <<W(m, 128, ""), Xr(a)>>) : mn \in {"vmovupd", "vmovdqu"}, a \in Corner, m \in MemV }
\cup { L4(mn, <<G(w, a), W(m, w, ""), G(w, b)>>) : mn \in Bmi, w \in {32, 64}, a \in {0, 15}, b \in {7, 8}, m \in MemV }
\cup { L4("mulx", <<G(w, a), G(w, b), W(m, w, "")>>) : w \in {32, 64}, a \in {0, 15}, b \in {7, 8}, m \in MemV }
\cup { L4("rorx", <<G(w, a), W(m, w, ""), ImHex(5)>>) : w \in {32, 64}, a \in Corner, m \in MemV }
\cup { L4(mn, <<Yr(a), Yr(b), W(m, 256, ""), ImHex(5)>>) : mn \in {"vperm2i128", "vperm2f128"}, a \in {0, 15}, b \in {7, 8}, m \in MemV }
\cup { L4("movd", <<Xr(a), W(m, 32, "")>>) : a \in Corner, m \in MemV } \cup { L4("movd", <<W(m, 32, ""), Xr(a)>>) : a \in Corner, m \in MemV }
\cup { L4("movq", <<Xr(a), W(m, 64, "")>>) : a \in Corner, m \in MemV } \cup { L4("movq", <<W(m, 64, ""), Xr(a)>>) : a \in Corner, m \in MemV }
\cup { L4("movntq", <<W(m, 64, ""), MMr(a)>>) : a \in {0, 7}, m \in MemV }
\cup { L4(mn, <<G(w, a), W(m, w, "")>>) : mn \in {"adcx", "adox"}, w \in {32, 64}, a \in Corner, m \in MemV }
\* the size keyword of the memory operand written out (redundant, documented; it must change nothing)
\cup { L4("movd", <<Xr(a), W(m, 32, "dword")>>) : a \in {0, 15}, m \in MemV } \cup { L4("movd", <<W(m, 32, "dword"), Xr(a)>>) : a \in {0, 15}, m \in MemV }
\cup { L4("movq", <<Xr(a), W(m, 64, "qword")>>) : a \in {0, 15}, m \in MemV } \cup { L4("movq", <<W(m, 64, "qword"), Xr(a)>>) : a \in {0, 15}, m \in MemV }
\cup { L4(mn, <<MMr(a), W(m, 64, "qword")>>) : mn \in {"paddb", "pxor", "psubq"}, a \in {0, 7}, m \in MemV }
\cup { L4("movntq", <<W(m, 64, "qword"), MMr(a)>>) : a \in {0, 7}, m \in MemV }
\cup { L4(mn, <<G(w, a), W(m, w, KW(w)), G(w, b)>>) : mn \in {"bzhi", "sarx"}, w \in {32, 64}, a \in {0, 15}, b \in {7, 8}, m \in MemV }
\cup { L4("mulx", <<G(w, a), G(w, b), W(m, w, KW(w))>>) : w \in {32, 64}, a \in {0, 15}, b \in {7, 8}, m \in MemV }
\cup { L4("rorx", <<G(w, a), W(m, w, KW(w)), ImHex(5)>>) : w \in {32, 64}, a \in {0, 15}, m \in MemV }
\cup { L4(mn, <<G(w, a), W(m, w, KW(w))>>) : mn \in {"adcx", "adox"}, w \in {32, 64}, a \in {0, 15}, m \in MemV }
\* the imm8 forms next to the memory shapes NASM-style rewriting touches, with the immediate written in decimal and in hexadecimal (the
\* spelling of an immediate selects a tokenizer path of its own; it must not reach the SIB options)
\cup { L4(mn, <<Yr(a), Yr(b), W(m, 256, ""), im>>) : mn \in {"vperm2i128", "vperm2f128"}, a \in {0, 15}, b \in {8}, im \in {ImDec(49), ImHex(49)},
         m \in { Mem("", 0, 64, 0, 4, 0, "is", NoD), Mem("", 0, 64, 9, 4, 0, "is", D(FALSE, <<16,0,0,0>>, "hex")), Mem("", 0, 64, -1, 13, 1, "si", NoD),
                 Mem("", 0, 64, -1, 3, 2, "si", NoD), Mem("", 0, 64, -1, 9, 2, "si", D(FALSE, <<16,0,0,0>>, "hex")) } }
\cup { L4("rorx", <<G(w, a), W(m, w, ""), im>>) : w \in {32, 64}, a \in {0, 15}, im \in {ImDec(5), ImHex(5)},
         m \in { Mem("", 0, 64, 0, 4, 0, "is", NoD), Mem("", 0, 64, -1, 13, 1, "si", NoD), Mem("", 0, 64, -1, 3, 2, "si", NoD) } }
\* ... and a `byte` in front of the imm8 of the VEX forms (not documented: the line may be rejected, an accepted one must be right)
\cup { Rec("C04", "MayReject", "rorx", <<G(w, a), G(w, b), [ImHex(5) EXCEPT !.kw = "byte"]>>) : w \in {32, 64}, a \in {0, 15}, b \in {7, 8} }
\cup { Rec("C04", "MayReject", "rorx", <<G(w, a), W(m, w, ""), [ImHex(5) EXCEPT !.kw = "byte"]>>) : w \in {32, 64}, a \in {0, 15}, m \in MemV }
\cup { Rec("C04", "MayReject", mn, <<Yr(a), Yr(b), Yr(a), [ImHex(5) EXCEPT !.kw = "byte"]>>) : mn \in {"vperm2i128", "vperm2f128"}, a \in {0, 15}, b \in {7, 8} }

(* ================================ C05 =================================== *)
RelMn == Jccs \cup {"jmp", "call", "jrcxz", "xbegin"}
RelIm(kw, neg, mag, radix) == [k |-> "i", kw |-> kw, neg |-> neg, mag |-> mag, radix |-> radix, digits |-> 0]
RelNear == { [neg |-> n, mag |-> Small(v)] : n \in BOOLEAN, v \in 0..129 } \ {[neg |-> TRUE, mag |-> Small(0)]}
RelFar == { [neg |-> n, mag |-> Mag8(m, Z4)] : n \in BOOLEAN, m \in {<<255,127,0,0>>, <<0,128,0,0>>, <<255,255,255,127>>, <<120,86,52,18>>, <<0,0,1,0>>, <<57,48,0,0>>} }
          \cup {[neg |-> TRUE, mag |-> Mag8(<<0,0,0,128>>, Z4)]}
InRel8(v) == IF v.neg THEN (FitsZ(v.mag, 1) /\ v.mag[1] <= 128) ELSE (FitsZ(v.mag, 1) /\ v.mag[1] <= 127)
RelStatus(mn, kw, v) ==
  IF mn = "jrcxz" THEN (IF ~InRel8(v) THEN "Invalid" ELSE IF kw = "long" THEN "Unconstrained" ELSE IF kw = "short" THEN "MayReject" ELSE "Supported")
  \* (`short` on call / xbegin, which have no rel8 form: an accepted line still has to be that operation with that displacement)
  ELSE IF kw = "short" THEN (IF InRel8(v) THEN "MayReject" ELSE "Invalid")
  ELSE "Supported"
CorpusC05(zz) ==
  { Rec("C05", RelStatus(mn, kw, v), mn, <<RelIm(kw, v.neg, v.mag, r)>>) :
      mn \in RelMn, kw \in {"", "short", "long"}, v \in RelNear \cup RelFar, r \in {"hex"} }
  \cup { Rec("C05", RelStatus(mn, kw, v), mn, <<RelIm(kw, v.neg, v.mag, "dec")>>) :
      mn \in {"jmp", "jne", "call", "jrcxz", "xbegin"}, kw \in {"", "short", "long"},
      v \in {x \in RelNear : x.mag[1] \in {0, 1, 126, 127, 128, 129}} \cup RelFar }
\* displacements written as 32-bit two's complement numbers (0xffffff80 for -128): outside the range the property promises to accept, but
\* when such a line is accepted its displacement field must hold those 32 bits, `long` must give rel32 and rel8 must not wrap
RelTC == { Mag8(<<0,255,255,255>>, Z4), Mag8(<<16,255,255,255>>, Z4), Mag8(<<127,255,255,255>>, Z4), Mag8(<<128,255,255,255>>, Z4), Mag8(<<251,255,255,255>>, Z4),
           Mag8(<<255,255,255,255>>, Z4), Mag8(<<0,240,255,255>>, Z4), Mag8(<<0,0,0,128>>, Z4), Mag8(<<129,255,255,255>>, Z4) }
InRel8TC(m) == m[2] = 255 /\ m[3] = 255 /\ m[4] = 255 /\ m[1] >= 128
RelStatusTC(mn, kw, m) ==
  IF mn = "jrcxz" THEN (IF InRel8TC(m) /\ kw # "long" THEN "MayReject" ELSE IF InRel8TC(m) THEN "Unconstrained" ELSE "Invalid")
  ELSE IF kw = "short" THEN (IF InRel8TC(m) THEN "MayReject" ELSE "Invalid")
  ELSE "MayReject"
\* displacements that do not fit 32 bits: no displacement field can equal them, so an accepted line is always judged wrong
RelOut == { [neg |-> FALSE, mag |-> Mag8(<<0,0,0,0>>, <<1,0,0,0>>)], [neg |-> FALSE, mag |-> Mag8(<<5,0,0,0>>, <<1,0,0,0>>)], [neg |-> FALSE, mag |-> Mag8(<<137,103,69,35>>, <<1,0,0,0>>)],
            [neg |-> TRUE, mag |-> Mag8(<<1,0,0,128>>, Z4)], [neg |-> TRUE, mag |-> Mag8(<<0,0,0,0>>, <<1,0,0,0>>)], [neg |-> TRUE, mag |-> Mag8(<<255,255,255,255>>, Z4)] }
C05_Out(zz) == { Rec("C05", IF kw = "short" \/ mn = "jrcxz" THEN "Invalid" ELSE "MayReject", mn, <<RelIm(kw, v.neg, v.mag, r)>>) : mn \in RelMn, kw \in {"", "short", "long"}, v \in RelOut, r \in {"hex", "dec"} }
C05_TC(zz) == { Rec("C05", RelStatusTC(mn, kw, m), mn, <<RelIm(kw, FALSE, m, r)>>) : mn \in RelMn, kw \in {"", "short", "long"}, m \in RelTC, r \in {"hex", "dec"} }
C05_Mem(zz) == { Rec("C05", "Supported", mn, <<W(m, 64, "")>>) : mn \in {"jmp", "call"}, m \in {x \in ShapesB(64) : OKShape(x)} }
      \cup { Rec("C05", "Supported", mn, <<[W(m, 80, "") EXCEPT !.far = TRUE]>>) : mn \in {"jmp", "call"}, m \in {x \in ShapesR(64) : OKShape(x)} }
      \cup { Rec("C05", "Supported", mn, <<[W(m, 48, "dword") EXCEPT !.far = TRUE]>>) : mn \in {"jmp", "call"}, m \in {x \in ShapesR(64) : OKShape(x) /\ x.i = -1} }
      \cup { Rec("C05", "Supported", mn, <<[W(m, 80, "qword") EXCEPT !.far = TRUE]>>) : mn \in {"jmp", "call"}, m \in {x \in ShapesR(64) : OKShape(x) /\ x.i \in {-1, 9}} }
      \cup { Rec("C05", "Supported", mn, <<G(64, n)>>) : mn \in {"jmp", "call"}, n \in 0..15 }

(* ================================ C10 =================================== *)
Kinds5 == {"r", "v", "y", "m", "i"}
RepOpd(k) == CASE k = "r" -> G(64, 1) [] k = "v" -> Xr(1) [] k = "y" -> Yr(1)
               [] k = "m" -> Mem("", 64, 64, 0, -1, 0, "is", NoD) [] OTHER -> ImHex(5)
KTuples(n) == [1..n -> Kinds5]
KStr(t) == FoldLeft(LAMBDA acc, k : acc \o k, "", t)
C10_Kinds(lens, first) ==
  { Rec("C10", IF KindStatus(mn, KStr(t)) = "Invalid" THEN "Invalid" ELSE "Unconstrained", mn, [j \in 1..Len(t) |-> RepOpd(t[j])]) :
      mn \in Mnemonics, t \in {x \in UNION {KTuples(n) : n \in lens} : Len(x) = 0 \/ x[1] \in first} }
\* lexical malformations are token sequences ("<hh>" denotes the byte hh); all must be rejected
Raw(cls, toks) == [prop |-> "C10", status |-> "Invalid", cls |-> cls, toks |-> toks]
BadRegs == {"raxx", "eex", "rex", "r16", "r31", "r8q", "r8l", "r10x", "xmm16", "xmm99", "ymm16", "ymm32", "mm8", "mm9", "zmm0", "st0",
            "ra", "rx", "eaxx", "axl", "sl", "bh1", "rsp1", "r15dd", "r15ww", "r15bb", "xmm", "ymm", "mm", "xmm1x", "k1", "cr0", "rip",
            "rbxy", "rspz", "r10y", "rbpz", "raxz", "rdiy", "ecxz", "r9dy", "rbxyz"}
C10_Regs(zz) ==
     { Raw("misspelt-register", <<"add", " ", b, ",", " ", "rcx">>) : b \in BadRegs }
\cup { Raw("misspelt-register", <<"add", " ", "rcx", ",", " ", b>>) : b \in BadRegs }
\cup { Raw("misspelt-register", <<"mov", " ", "[", b, "]", ",", " ", "rcx">>) : b \in BadRegs }
\cup { Raw("misspelt-register", <<"lea", " ", "rcx", ",", " ", "[", "rax", "+", b, "]">>) : b \in BadRegs }
\cup { Raw("misspelt-register", <<"lea", " ", "rcx", ",", " ", "[", "rax", "+", "4", "*", b, "]">>) : b \in BadRegs }
\cup { Raw("misspelt-register", <<"vpaddb", " ", "ymm1", ",", " ", b, ",", " ", "ymm2">>) : b \in BadRegs }
\cup { Raw("misspelt-register", <<"push", " ", b>>) : b \in BadRegs }
\cup { Raw("misspelt-register", <<"paddb", " ", "xmm1", ",", " ", b>>) : b \in BadRegs }
\* a misspelt register at every operand position of 1- to 4-operand forms, as register and inside a memory expression
RegTemplates == { <<"inc", " ", "@">>, <<"push", " ", "@">>, <<"add", " ", "@", ",", " ", "rcx">>, <<"add", " ", "rcx", ",", " ", "@">>,
                  <<"add", " ", "rcx", ",", " ", "[", "@", "]">>, <<"add", " ", "[", "rax", "+", "@", "]", ",", " ", "rcx">>,
                  <<"shld", " ", "@", ",", " ", "rbx", ",", " ", "cl">>, <<"shld", " ", "rax", ",", " ", "@", ",", " ", "cl">>, <<"shld", " ", "rax", ",", " ", "rbx", ",", " ", "@">>,
                  <<"shlx", " ", "@", ",", " ", "rbx", ",", " ", "rcx">>, <<"shlx", " ", "rax", ",", " ", "@", ",", " ", "rcx">>, <<"shlx", " ", "rax", ",", " ", "rbx", ",", " ", "@">>,
                  <<"shlx", " ", "rax", ",", " ", "[", "@", "]", ",", " ", "rcx">>, <<"mulx", " ", "rax", ",", " ", "rbx", ",", " ", "@">>,
                  <<"mulx", " ", "rax", ",", " ", "rbx", ",", " ", "[", "rax", "+", "@", "*", "4", "]">>, <<"mulx", " ", "rax", ",", " ", "rbx", ",", " ", "[", "@", "+", "rcx", "]">>,
                  <<"imul", " ", "rax", ",", " ", "@", ",", " ", "0x5">>, <<"imul", " ", "@", ",", " ", "rbx", ",", " ", "0x5">>, <<"rorx", " ", "rax", ",", " ", "@", ",", " ", "0x5">>,
                  <<"vpaddb", " ", "@", ",", " ", "ymm2", ",", " ", "ymm3">>, <<"vpaddb", " ", "ymm1", ",", " ", "@", ",", " ", "ymm3">>, <<"vpaddb", " ", "ymm1", ",", " ", "ymm2", ",", " ", "@">>,
                  <<"vpaddb", " ", "ymm1", ",", " ", "ymm2", ",", " ", "[", "@", "]">>, <<"vpaddb", " ", "xmm1", ",", " ", "xmm2", ",", " ", "@">>,
                  <<"vperm2i128", " ", "ymm1", ",", " ", "ymm2", ",", " ", "@", ",", " ", "0x5">>, <<"vperm2i128", " ", "ymm1", ",", " ", "@", ",", " ", "ymm3", ",", " ", "0x5">>,
                  <<"vperm2i128", " ", "@", ",", " ", "ymm2", ",", " ", "ymm3", ",", " ", "0x5">>, <<"vperm2i128", " ", "ymm1", ",", " ", "ymm2", ",", " ", "[", "rax", "+", "@", "]", ",", " ", "0x5">>,
                  <<"paddb", " ", "xmm1", ",", " ", "@">>, <<"paddb", " ", "@", ",", " ", "xmm1">>, <<"movq", " ", "xmm1", ",", " ", "@">>, <<"bzhi", " ", "rax", ",", " ", "rbx", ",", " ", "@">>,
                  <<"jmp", " ", "@">>, <<"call", " ", "[", "@", "]">>, <<"setc", " ", "@">>, <<"cmovne", " ", "rax", ",", " ", "@">> }
BadRegs2 == BadRegs \cup {"rcz", "rbxx", "rdy", "ebxx", "r9q", "r12e", "xmn1", "xmmm1", "xmm1a", "ymn2", "ymm2z", "mmm1", "mmx1", "cll", "alx", "sill", "r8bb"}
Fill(t, b) == [k \in 1..Len(t) |-> IF t[k] = "@" THEN b ELSE t[k]]
\* a correct register name with further characters attached is not a register name either
TailRegs == { r \o t : r \in {"rbx", "ecx", "r10", "r9d", "dx", "cl", "xmm3", "ymm9", "mm2"}, t \in {"+1", "+rcx", "]", "*2", "-", "+", "-0x10", "+rcx*4", "]]", "["} }
C10_Templ(zz) == { Raw("misspelt-register", Fill(t, b)) : t \in RegTemplates, b \in BadRegs2 }
            \cup { Raw("misspelt-register", Fill(t, b)) : t \in {x \in RegTemplates : \A k \in 1..Len(x) : x[k] # "["}, b \in TailRegs }
\* (the filter starts the mnemonic at the first character in 'A'..'z': that range also holds [ \ ] ^ _ `)
BadMn == {"foo", "addd", "mo", "movv", "ad", "xorr", "jmpp", "nop12", "nop0", "vpaddz", "leaa", "pushq", "a", "zzz", "cmovxx", "setzz",
          "_start", "_add", "__", "[rax]", "[", "]", "]add", "^add", "^", "`add`", "`", "\\add", "\\"}
C10_Mn(zz) == { Raw("unknown-mnemonic", <<b, " ", "rax", ",", " ", "rcx">>) : b \in BadMn }
         \cup { Raw("unknown-mnemonic", <<b>>) : b \in BadMn } \cup { Raw("unknown-mnemonic", <<b, " ", "rax">>) : b \in BadMn }
BadScales == {"0", "3", "5", "6", "7", "9", "10", "16"}
MemUsers == { <<"lea", " ", "rcx", ",", " ">>, <<"mov", " ", "rcx", ",", " ">>, <<"add", " ", "qword", " ">>, <<"jmp", " ">>,
              <<"paddb", " ", "xmm1", ",", " ">>, <<"vpaddb", " ", "ymm1", ",", " ", "ymm2", ",", " ">>, <<"inc", " ", "dword", " ">> }
MemTail(u) == IF u[1] = "add" THEN <<",", " ", "rcx">> ELSE <<>>
C10_Mem(zz) ==
     \* a factor on both sides of the index register whose product is no scale (a product of 1, 2, 4, 8 is an address nasm accepts)
     { Raw("invalid-scale", u \o <<"[", "rax", "+", p[1], "*", "rbx", "*", p[2], "]">> \o MemTail(u)) : u \in MemUsers,
         p \in {<<"2", "3">>, <<"4", "3">>, <<"8", "3">>, <<"1", "3">>, <<"2", "8">>, <<"4", "4">>, <<"4", "8">>, <<"8", "2">>, <<"8", "4">>, <<"8", "8">>, <<"2", "5">>} }
\cup { Raw("invalid-scale", u \o <<"[", s1, "*", "rbx", "*", "3", "]">> \o MemTail(u)) : u \in MemUsers, s1 \in {"2", "4"} }
\cup { Raw("invalid-scale", u \o <<"[", "rax", "+", "rbx", "*", "2", "*", "3", "]">> \o MemTail(u)) : u \in MemUsers }
\cup     { Raw("invalid-scale", u \o <<"[", "rax", "+", "rcx", "*", sc, "]">> \o MemTail(u)) : u \in MemUsers, sc \in BadScales }
\cup { Raw("invalid-scale", u \o <<"[", "rax", "+", sc, "*", "rcx", "]">> \o MemTail(u)) : u \in MemUsers, sc \in BadScales }
\cup { Raw("invalid-scale", u \o <<"[", sc, "*", "rcx", "]">> \o MemTail(u)) : u \in MemUsers, sc \in BadScales }
\cup { Raw("invalid-scale", u \o <<"[", sc, "*", "rcx", "+", "0x10", "]">> \o MemTail(u)) : u \in MemUsers, sc \in BadScales }
\cup { Raw("sp-scaled-index", u \o <<"[", "rax", "+", sp, "*", sc, "]">> \o MemTail(u)) : u \in MemUsers, sp \in {"rsp", "esp"}, sc \in {"2", "4", "8"} }
\cup { Raw("sp-scaled-index", u \o <<"[", "rax", "+", sc, "*", sp, "]">> \o MemTail(u)) : u \in MemUsers, sp \in {"rsp"}, sc \in {"2", "4", "8"} }
\cup { Raw("sp-scaled-index", u \o <<"[", sc, "*", sp, "]">> \o MemTail(u)) : u \in MemUsers, sp \in {"rsp", "esp"}, sc \in {"2", "4", "8"} }
\cup { Raw("sp-scaled-index", u \o <<"[", sc, "*", sp, "+", "0x10", "]">> \o MemTail(u)) : u \in MemUsers, sp \in {"rsp"}, sc \in {"2", "4", "8"} }
\cup { Raw("sp-base-and-index", u \o <<"[", sp, "+", sp, "]">> \o MemTail(u)) : u \in MemUsers, sp \in {"rsp", "esp"} }
\cup { Raw("sp-base-and-index", u \o <<"[", "rsp", "+", "rsp", "+", "0x10", "]">> \o MemTail(u)) : u \in MemUsers }
\cup { Raw("second-bracket-group", u \o <<"[", "rbx", "]", "[", "rcx", "]">> \o MemTail(u)) : u \in MemUsers }
\cup { Raw("second-bracket-group", u \o <<"[", "0x10", "]", "[", "rbx", "]">> \o MemTail(u)) : u \in MemUsers }
\cup { Raw("second-bracket-group", u \o <<"[", "rbx", "]", " ", "[", "rcx", "+", "0x10", "]">> \o MemTail(u)) : u \in MemUsers }
\cup { Raw("second-bracket-group", <<"imul", " ", "rax", ",", " ", "word", " ", "[", "0x12345678", "]", "[", "8", "*", "eax", "]", ",", " ", "0x1122334455667788">>),
       Raw("second-bracket-group", <<"mov", " ", "[", "rax", "]", "[", "rbx", "]", ",", " ", "rcx">>) }
\cup { Raw("unclosed-bracket", u \o <<"[", "rax">> \o MemTail(u)) : u \in MemUsers }
\cup { Raw("unclosed-bracket", u \o <<"[", "rax", "+", "rcx", "*", "4">> \o MemTail(u)) : u \in MemUsers }
\cup { Raw("unclosed-bracket", u \o <<"[", "rax", "+", "0x10">> \o MemTail(u)) : u \in MemUsers }
\cup { Raw("unclosed-bracket", u \o <<"[", "0x10">> \o MemTail(u)) : u \in MemUsers }
\cup { Raw("unclosed-bracket", u \o <<"[">> \o body \o MemTail(u)) : u \in MemUsers,
        body \in { <<"rbx", "+", "rcx">>, <<"rbx", "+", "2", "*", "rcx">>, <<"4", "*", "rcx">>, <<"rbx", "+", "rcx", "*", "2", "+", "8">>, <<"rcx", "*", "8">>,
                   <<"rbx", "+", "rcx", "+", "0x10">>, <<"ebx", "+", "ecx">>, <<"r12", "+", "r13", "*", "4">>, <<"rbx", "-", "0x10">>, <<"rsp">>, <<"rbx", "+", "rsp">> } }
\cup { Raw("unclosed-bracket", u \o body \o <<"]">> \o MemTail(u)) : u \in MemUsers, body \in { <<"rbx", "+", "rcx">>, <<"rax">>, <<"rbx", "+", "rcx", "*", "2">> } }
\* the displacement in front of the registers is not a memory expression of this assembler (it used to be assembled into garbage)
\cup { Raw("displacement-first", u \o <<"[">> \o body \o <<"]">> \o MemTail(u)) : u \in MemUsers,
        body \in { <<"0x10", "+", "rax">>, <<"16", "+", "rax">>, <<"0x10", "+", "rax", "*", "4">>, <<"0x12345678", "+", "eax", "*", "8">>, <<"-", "0x10", "+", "rax">>,
                   <<"0x10", "+", "rax", "+", "rbx">>, <<"8", "+", "r12", "+", "r13", "*", "2">> } }
C10_Empty(zz) ==
     { Raw("empty-operand", <<mn, " ", ",", "rax">>) : mn \in {"add", "mov", "push", "imul", "vpaddb", "shld"} }
\cup { Raw("empty-operand", <<mn, " ", "rax", ",", ",", "rbx">>) : mn \in {"add", "mov", "imul", "shld", "bzhi"} }
\cup { Raw("empty-operand", <<mn, " ", "rax", ",", " ", ",", " ", "rbx">>) : mn \in {"add", "mov", "imul", "shld", "bzhi"} }
\cup { Raw("empty-operand", <<mn, " ", "rax", ",">>) : mn \in {"add", "mov", "push", "inc", "imul"} }
\cup { Raw("empty-operand", <<mn, " ", "rax", ",", " ">>) : mn \in {"add", "mov", "push", "inc", "imul"} }
\cup { Raw("empty-operand", <<mn, " ", "rax", ",", " ", "rbx", ",">>) : mn \in {"add", "mov", "imul", "shld"} }
\cup { Raw("empty-operand", <<"vpaddb", " ", "ymm1", ",", " ", ",", " ", "ymm2">>), Raw("empty-operand", <<"vpaddb", " ", "ymm1", ",", " ", "ymm2", ",">>),
       Raw("empty-operand", <<"add", " ", ",">>), Raw("empty-operand", <<"add", " ", ",", ",">>) }
\cup { Raw("operand-after-immediate", <<mn, " ", "rax", ",", " ", "0x5", ",", " ", x>>) : mn \in {"add", "mov", "shl", "imul", "test", "ror"}, x \in {"rcx", "0x1", "[rax]", "xmm1"} }
\cup { Raw("operand-after-immediate", <<mn, " ", "0x5", ",", " ", x>>) : mn \in {"push", "jmp", "call", "xabort", "jne"}, x \in {"rcx", "0x1", "[rax]"} }
\* ... behind the immediate of the three- and four-operand forms (a fourth / fifth operand)
\cup { Raw("operand-after-immediate", <<mn, " ", "rax", ",", " ", "rbx", ",", " ", "0x5", ",", " ", x>>) : mn \in {"rorx", "imul", "shld", "shrd"}, x \in {"rcx", "0x1", "[rax]", "xmm1"} }
\cup { Raw("operand-after-immediate", <<mn, " ", "ymm0", ",", " ", "ymm1", ",", " ", "ymm2", ",", " ", "0x1", ",", " ", x>>) :
         mn \in {"vperm2i128", "vperm2f128"}, x \in {"ymm3", "rcx", "0x1", "[rax]", "xmm1"} }
\cup { Raw("too-many-operands", <<mn, " ", "ymm0", ",", " ", "ymm1", ",", " ", "ymm2", ",", " ", "ymm3", ",", " ", x>>) : mn \in {"vpaddb", "vperm2i128", "vpxor"}, x \in {"ymm4", "0x1"} }
\cup { Raw("too-many-operands", <<mn, " ", "rax", ",", " ", "rbx", ",", " ", "rcx", ",", " ", "rdx", ",", " ", x>>) : mn \in {"add", "mov", "mulx", "bzhi"}, x \in {"rsi", "0x1", "[rax]"} }
\cup { Raw("too-many-operands", <<"vperm2i128", " ", "ymm0", ",", " ", "ymm1", ",", " ", "ymm2", ",", " ", "0x1", ",", " ", "ymm3", ",", " ", "ymm4">>) }
HiBytes == { "<7f>", "<80>", "<81>", "<90>", "<a0>", "<c2>", "<c3>", "<e9>", "<fe>", "<ff>" }
BaseLines == { <<"add", " ", "rax", ",", " ", "rcx">>, <<"mov", " ", "rcx", ",", " ", "[", "rax", "+", "0x10", "]">>, <<"ret">>,
               <<"vpaddb", " ", "ymm1", ",", " ", "ymm2", ",", " ", "ymm3">>, <<"push", " ", "0x5">> }
InsTok(t, k, b) == SubSeq(t, 1, k) \o <<b>> \o SubSeq(t, k + 1, Len(t))
C10_Bytes(zz) == { Raw("non-ascii-byte", InsTok(t, k, b)) : t \in BaseLines \ {<<"ret">>}, k \in 0..3, b \in HiBytes }
            \cup { Raw("non-ascii-byte", InsTok(<<"ret">>, k, b)) : k \in 0..1, b \in HiBytes }
            \cup { Raw("non-ascii-byte", InsTok(t, Len(t), b)) : t \in BaseLines, b \in HiBytes }
            \cup { Raw("non-ascii-byte", InsTok(t, Len(t) - 1, b)) : t \in BaseLines, b \in HiBytes }
            \cup { Raw("non-ascii-byte", InsTok(t, Len(t), b) \o <<" ", ";", " ", "comment">>) : t \in BaseLines, b \in HiBytes }
C10_Lex(zz) == C10_Regs(0) \cup C10_Templ(0) \cup C10_Mn(0) \cup C10_Mem(0) \cup C10_Empty(0) \cup C10_Bytes(0)

(* ================================ C11 =================================== *)
SpIdxShapes == { Mem("", 0, a, b, 4, 0, "is", d) : a \in {64, 32}, b \in {0, 5, 9, 12, 13},
                 d \in {NoD, D(FALSE, <<16,0,0,0>>, "hex"), D(TRUE, <<129,0,0,0>>, "hex")} }
NoBaseShapes == { Mem("", 0, a, -1, i, s, "si", d) : a \in {64, 32}, i \in {1, 5, 9, 12, 13}, s \in {1, 2, 4, 8},
                  d \in {NoD, D(FALSE, <<16,0,0,0>>, "hex"), D(TRUE, <<16,0,0,0>>, "hex"), D(FALSE, <<0,1,0,0>>, "hex")} }
C11_Sib(sel(_)) == { [r EXCEPT !.prop = "C11"] : r \in UNION {C02_Class(m) : m \in {x \in SpIdxShapes \cup NoBaseShapes : sel(x)}} }

(* ================================ C16 =================================== *)
\* concrete-syntax styles under which the emitted bytes must not change (applied token-wise by the harness)
StyleDims == [ case   : {"lower", "upper", "mixed"},
               sep    : {"space", "tab", "spaces"},
               comma  : {",", ", ", " , ", ",tab", ",wide"},
               brack  : {"tight", "spaced", "uneven", "wide"},
               indent : {"", "  ", "tab", "wide"},
               trail  : {"", " ", " ; comment", ";c", "tab; x", "wide", "wide; c", " ; was:tabsub rax, 0x10", " ; caf<c3><a9> ret", " ; <0c>ret"},   \* "wide": more blanks than a line may hold characters
               eol    : {"none", "lf", "crlf"},
               zeros  : {"asis", "lead", "pad16", "pad17", "pad24"},       \* pad16: hexadecimal padded to 16 digits, decimal to 20
               radix  : {"asis", "swap"} ]
DefaultStyle == [case |-> "lower", sep |-> "space", comma |-> ", ", brack |-> "tight", indent |-> "", trail |-> "",
                 eol |-> "none", zeros |-> "asis", radix |-> "asis"]
Changed(st) == {d \in DOMAIN DefaultStyle : st[d] # DefaultStyle[d]}
\* every style that differs from the canonical one in at most two dimensions (pairwise complete)
Styles2(zz) == {st \in StyleDims : Cardinality(Changed(st)) <= 2}
Styles3(zz) == {st \in StyleDims : Cardinality(Changed(st)) = 3}
\* program decorations: lines that emit nothing
DecorLines == { <<"">>, <<" ">>, <<"; only a comment">>, <<"label:">>, <<"  loop_1:">>, <<"section .text">>, <<"SECTION .data">>,
                <<"global main">>, <<"GLOBAL _start">>, <<"[section .text]">>, <<"[GLOBAL test]">>, <<"  [ section .data ]">>, <<"[global f] ; c">>, <<"% macro-like">>, <<"<09>", "; c">>, <<"   ", "; indented comment">>,
                [k \in 1..130 |-> " "], <<";">> \o [k \in 1..150 |-> "c"], [k \in 1..110 |-> " "] \o <<"; c">>,
                \* labels followed by blanks / a comment, with a blank before the colon, in upper case
                <<"label: ">>, <<"label:", "<09>">>, <<"lbl: ", "; c">>, <<"lbl :">>, <<"  l2:  ">>, <<"L3:;c">>, <<"END:   ">> }

(* ============================= selection ================================ *)
Selected == CASE IOEnv.CORPUS = "C01" -> CorpusC01(0)
              [] IOEnv.CORPUS = "C01k" -> C01_Kw(0)
              [] IOEnv.CORPUS = "C02a" -> C02_LeaA(0)
              [] IOEnv.CORPUS = "C02b" -> C02_LeaB(0)
              [] IOEnv.CORPUS = "C02c" -> C02_LeaC(0)
              [] IOEnv.CORPUS = "C02d" -> C02_Cls(LAMBDA m : m.a = 64 /\ m.b < 5)
              [] IOEnv.CORPUS = "C02e" -> C02_Cls(LAMBDA m : m.a = 64 /\ m.b >= 5 /\ m.b < 12)
              [] IOEnv.CORPUS = "C02f" -> C02_Cls(LAMBDA m : m.a = 64 /\ m.b >= 12)
              [] IOEnv.CORPUS = "C02g" -> C02_Cls(LAMBDA m : m.a = 32)
              [] IOEnv.CORPUS = "C02k" -> {r \in C02_Table(0) : KindStatus(r.ast.mn, KindStr(r.ast.opds)) = "Supported"}
              [] IOEnv.CORPUS = "C02h" -> C02_Cls2(LAMBDA m : m.a = 64 /\ m.b < 9)
              [] IOEnv.CORPUS = "C02i" -> C02_Cls2(LAMBDA m : m.a = 64 /\ m.b >= 9)
              [] IOEnv.CORPUS = "C02j" -> C02_Cls2(LAMBDA m : m.a = 32)
              [] IOEnv.CORPUS = "C02l" -> C02_Sp(0)
              [] IOEnv.CORPUS = "C02m" -> C02_Late(0)
              [] IOEnv.CORPUS = "C03" -> CorpusC03(0)
              [] IOEnv.CORPUS = "C03k" -> { [prop |-> y.prop, status |-> y.status, ast |-> y.ast, flags |-> "-"] : y \in C03_Kw(0) }
              [] IOEnv.CORPUS = "C04a" -> C04_Mmx(0) \cup C04_Sse(0) \cup C04_Mov(0) \cup C04_VMov(0)
              [] IOEnv.CORPUS = "C04b" -> C04_VexRest(0) \cup C04_Bmi(FALSE)
              [] IOEnv.CORPUS = "C04c" -> C04_MemForms(0)
              [] IOEnv.CORPUS = "C04d" -> C04_VexX(VFull, Tri(0..15))
              [] IOEnv.CORPUS = "C04e" -> C04_VexY(VFull, Tri(0..15))
              [] IOEnv.CORPUS = "C04f" -> C04_BmiFull(0)
              [] IOEnv.CORPUS = "C05" -> CorpusC05(0) \cup C05_TC(0) \cup C05_Out(0)
              [] IOEnv.CORPUS = "C05m" -> C05_Mem(0)
              [] IOEnv.CORPUS = "C10a" -> C10_Kinds(0..3, Kinds5)
              [] IOEnv.CORPUS = "C10b" -> C10_Kinds({4}, {"r"})
              [] IOEnv.CORPUS = "C10c" -> C10_Kinds({4}, {"v", "y"})
              [] IOEnv.CORPUS = "C10d" -> C10_Kinds({4}, {"m", "i"})
              [] IOEnv.CORPUS = "C10x" -> C10_Lex(0)
              [] IOEnv.CORPUS = "C11s" -> C11_Sib(LAMBDA m : m.a = 64)
              [] IOEnv.CORPUS = "C11t" -> C11_Sib(LAMBDA m : m.a = 32)
              [] IOEnv.CORPUS = "STYLES2" -> Styles2(0)
              [] IOEnv.CORPUS = "STYLES3" -> Styles3(0)
              [] IOEnv.CORPUS = "DECOR" -> {[toks |-> d] : d \in DecorLines}
              [] IOEnv.CORPUS = "FILESIZES" -> {[n |-> k] : k \in {0, 1, 2, 3, 4095, 4096, 4097, 8191, 8192, 8193, 12288} \cup (4056..4136) \cup (8172..8212)}
              [] IOEnv.CORPUS = "BINOFFSETS" -> {[n |-> k] : k \in {0, 1, 4095, 4096, 6000, 6019, 6020, 6021, 12021}}
              [] OTHER -> {}
ASSUME ndJsonSerialize(IOEnv.OUT, SetToSeq(Selected))
VARIABLE x
Init == x = 0
Next == UNCHANGED x
=============================================================================
