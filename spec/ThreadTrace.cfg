SPECIFICATION TSpec
CONSTANTS
 NT = 2
 ROUNDS = 1
POSTCONDITION Accepted
CHECK_DEADLOCK FALSE
