--------------------------- MODULE AsmThreadsDefs ---------------------------
(* Thread layer (DESIGN 5 C18).  The only library-internal shared state is the  *)
(* pair of first-letter index tables, rebuilt by every asm_create_instance and  *)
(* read by every lookup.  The model is instantiated with the access sequences   *)
(* OBSERVED on the current tree through the table hook (OBS: for every work     *)
(* item the stores of its create and the loads of its assemble call), so it     *)
(* describes what the code really does.  TLC explores every interleaving of NT  *)
(* threads running ROUNDS create/use/destroy rounds and checks that every       *)
(* lookup sees the final table value (otherwise a thread would look up the      *)
(* wrong rows and not obtain the bytes it obtains alone).                       *)
(* The second half (TSpec) validates recorded executions: accesses logged in    *)
(* their global order under the turn-based scheduler, and per-thread results.   *)
EXTENDS Integers, Sequences, FiniteSets, TLC, Json, IOUtils

Items == ndJsonDeserialize(IOEnv.OBS)        \* [k, acc: <<[s, t, i, v]>>]  s = 1 store, 0 load
CONSTANTS NT, ROUNDS
Threads == 1..NT
NItems == Len(Items)
ItemOf(t, r) == ((t + r) % NItems) + 1        \* work item of thread t in round r (as in harness/threadrun.c)
AccOf(t, r) == Items[ItemOf(t, r)].acc
Cells == {0, 1, 2} \X (0..25)      \* tables 0 and 1: the index tables; "table" 2: the OS calls of the file entry points (yield points, never stored to)
\* the value a completed build leaves in a cell: the last store of the observed build
LastStore(acc, c) == LET S == {k \in 1..Len(acc) : acc[k].s = 1 /\ acc[k].t = c[1] /\ acc[k].i = c[2]} IN
                     IF S = {} THEN 0 ELSE acc[CHOOSE k \in S : \A j \in S : j <= k].v
Final == [c \in Cells |-> LastStore(Items[1].acc, c)]
=============================================================================
