----------------------------- MODULE AsmFaults -----------------------------
(* Fault enumeration for C17 (DESIGN 5 C17).  OBS holds, for each scenario, the *)
(* sequence of OS calls the library made during every API call of a fault-free *)
(* run on the current tree (observed through link-time wrappers, so the model  *)
(* is instantiated with what the code really does).  TLC enumerates every      *)
(* single refusal of every such call (plus the short-write variant of fwrite)  *)
(* and writes the fault points; the harness replays each one and ApiTrace.tla  *)
(* judges the recorded execution (failure reported through the documented      *)
(* return value, no crash, earlier code intact, instance still destroyable,    *)
(* asm_create_bin_file succeeds only if the whole code reached the file).      *)
EXTENDS Integers, Sequences, FiniteSets, TLC, Json, IOUtils, SequencesExt
Obs == ndJsonDeserialize(IOEnv.OBS)          \* [s: scenario id, ops: <<call letters of op 1, op 2, ...>>]
Name(c) == CASE c = "a" -> "malloc" [] c = "b" -> "mmap" [] c = "c" -> "mremap" [] c = "d" -> "munmap" [] c = "e" -> "open"
             [] c = "f" -> "fstat" [] c = "g" -> "read" [] c = "h" -> "close" [] c = "i" -> "fopen" [] c = "j" -> "fwrite"
             [] c = "k" -> "fclose" [] OTHER -> "free"
Letter(str, k) == SubSeq(str, k, k)
\* the nth call of that kind within the op (what the harness arms)
Nth(str, k) == Cardinality({j \in 1..k : Letter(str, j) = Letter(str, k)})
Points == UNION { UNION { { [s |-> Obs[x].s, op |-> j, call |-> Name(Letter(Obs[x].ops[j], k)), nth |-> Nth(Obs[x].ops[j], k)] :
                             k \in {q \in 1..Len(Obs[x].ops[j]) : Letter(Obs[x].ops[j], q) # "l"} } :
                           j \in 1..Len(Obs[x].ops) } : x \in 1..Len(Obs) }
Short == { [p EXCEPT !.call = "fwrite-short"] : p \in {q \in Points : q.call = "fwrite"} }
\* the same refusals with errno = EINTR (a signal arrived): still a failure of that call
Eintr == { [p EXCEPT !.call = p.call \o "-eintr"] : p \in {q \in Points : q.call \in {"open", "fstat", "read", "close", "fopen", "fwrite", "fclose"}} }
\* a read that reports the end of the file although fstat announced more bytes (file truncated meanwhile, sysfs attribute)
Eof == { [p EXCEPT !.call = "read-eof"] : p \in {q \in Points : q.call = "read"} }
\* two refusals within one API call (a failing medium fails write and close alike): a failing or short fwrite, read or mremap
\* followed by the failure of a later fclose / close / munmap of the same op; nth2 counts within the op like nth
First2 == {"j", "g", "c"}
Second2 == {"k", "h", "d"}
PairsOf(x, j) ==
  LET str == Obs[x].ops[j] IN
  { [s |-> Obs[x].s, op |-> j, call |-> Name(Letter(str, k1)) \o "+" \o Name(Letter(str, k2)), nth |-> Nth(str, k1), nth2 |-> Nth(str, k2)] :
      k1 \in {q \in 1..Len(str) : Letter(str, q) \in First2}, k2 \in {q \in 1..Len(str) : Letter(str, q) \in Second2} }
  \cup
  { [s |-> Obs[x].s, op |-> j, call |-> "fwrite-short+" \o Name(Letter(str, k2)), nth |-> Nth(str, k1), nth2 |-> Nth(str, k2)] :
      k1 \in {q \in 1..Len(str) : Letter(str, q) = "j"}, k2 \in {q \in 1..Len(str) : Letter(str, q) \in Second2} }
Pairs == UNION { UNION { {p \in PairsOf(x, j) : TRUE} : j \in 1..Len(Obs[x].ops) } : x \in 1..Len(Obs) }
Single == { [s |-> p.s, op |-> p.op, call |-> p.call, nth |-> p.nth, nth2 |-> 0] : p \in Points \cup Short \cup Eintr \cup Eof }
ASSUME ndJsonSerialize(IOEnv.OUT, SetToSeq(Single \cup {p \in Pairs : p.nth2 > 0}))
VARIABLE x
Init == x = 0
Next == UNCHANGED x
=============================================================================
