SPECIFICATION Spec
CONSTANTS
 T = 20
 Q = 6000
 NINST = 1
 LENS = {1,2,3,4,5,6,7,8,9,10,11,12,13,14,15}
 MAXPROG = 1
 CAPS = {160}
 Q0 = 6020
 CHUNKS = {0,1,2,3,4,5,6,7,8,9,10,11,12,13,14,15,16,17,18,19,20,21,22,23,24,25,26,27,28,29,30,31,32,33,34,35,36,37,38,39,40}
 OFFS = {0,1,2,3,4,5,6,7,8,9,10,11,12,13,14,15,16,17,18,19,20,21,22,23,24,25,26,27,28,29,30,31,32,33,34,35,36,37,38,39,40}
 KINDS = {"ext"}
 SETTERS = {}
 DEPTH = 4
 EMITACTS = {"asm"}
CONSTRAINT Bounded
VIEW View
ACTION_CONSTRAINT Emit
PROPERTY C06_Concat
PROPERTY C07_Contained
PROPERTY PrefixKept
PROPERTY C08_Growth
PROPERTY C13_Fit
PROPERTY C14_Count
PROPERTY C15_FailKeeps
PROPERTY C15_HistFree
PROPERTY C15_CountNeutral
PROPERTY C12_Options
