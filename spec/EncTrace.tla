------------------------------ MODULE EncTrace ------------------------------
(* Monitor trace specification for line-level bundles (DESIGN 3.5, 4.3).     *)
(* Each event is what the real library did with one input line under the    *)
(* option combinations / contexts / modes the harness ran; the monitor       *)
(* evaluates the property predicates with the architecture oracle and        *)
(* reports every failing event (it never blocks: on this code base one       *)
(* rejection must not leave the rest of the trace unexamined).               *)
(*                                                                           *)
(* event = [id, prop, status, ast | raw, runs]                               *)
(* run   = [o (option indices with this outcome), ctx, mode, ret, off0, off1,*)
(*          lo, hi (changed cells), pre, outside, dest, bytes, rax, fault]   *)
EXTENDS AsmSyntax, Json, IOUtils

T == ndJsonDeserialize(IOEnv.TRACE)
VARIABLES l, nbad
vars == <<l, nbad>>

HasAst(ev) == "ast" \in DOMAIN ev
SensOf(ev) == IF HasAst(ev) THEN Sensitive(ev.ast) ELSE {}
Agree(o1, o2, sens) ==
  LET a == OptRec(o1)  b == OptRec(o2) IN
  /\ "mov" \in sens => a.mov = b.mov
  /\ "swap" \in sens => a.swap = b.swap
  /\ "nobase" \in sens => a.nobase = b.nobase

\* the run of the same option/mode in context solo0 (for the small-scale concatenation check)
SoloOf(ev, r, oi) ==
  LET c == {k \in 1..Len(ev.runs) : ev.runs[k].ctx = "solo0" /\ ev.runs[k].mode = r.mode /\ oi \in Rng(ev.runs[k].o)}
  IN IF c = {} THEN [ret |-> -1] ELSE ev.runs[CHOOSE k \in c : TRUE]

Nops(n) == [k \in 1..n |-> 144]
\* expected bytes of the contexts first/mid/last in plain or counting mode (fitting inserts padding: judged by C13)
CtxWhy(ev, r, oi) ==
  IF r.ctx \in {"solo0", "solo37", "edge"} \/ r.mode = "fit" THEN ""
  ELSE LET s == SoloOf(ev, r, oi) IN
       IF s.ret # 0 THEN ""
       ELSE LET pre == Nops(r.pre)
                suf == IF r.ctx = "first" THEN <<144, 195>> ELSE IF r.ctx = "mid" THEN <<195>> ELSE <<>>
            IN IF r.bytes = pre \o s.bytes \o suf THEN "" ELSE "C06:context"

\* one run of a line that must assemble
SupportedWhy(ev, r, oi) ==
  IF r.ret # 0 THEN "rejected"
  ELSE IF r.off1 - r.off0 # Len(r.bytes) \/ r.lo # r.off0 \/ r.hi # r.off1 - 1 THEN "C01:offset-advance"
  ELSE IF r.ctx \notin {"solo0", "solo37", "edge"} THEN CtxWhy(ev, r, oi)
  ELSE IF r.mode = "fit" /\ (ev.ast.mn \in NopK \/ ev.ast.mn = "nop") THEN ""   \* padding and instruction are both NOPs: judged by C13
  ELSE LET \* chunk fitting may put NOP padding in front (its layout is C13's business) and assembles the instruction a second time: judge that code
           ds   == IF r.mode = "fit" /\ Len(r.bytes) > 0 THEN DecodeAll(r.bytes) ELSE <<>>
           pad  == Len(ds) >= 2 /\ (\A k \in 1..Len(ds) : ds[k].ok) /\ (\A k \in 1..(Len(ds) - 1) : IsNop(ds[k]))
           body == IF pad THEN SubSeq(r.bytes, Len(r.bytes) - ds[Len(ds)].len + 1, Len(r.bytes)) ELSE r.bytes
           d    == DecodeOne(body)
       IN
       IF ~d.ok THEN (IF Decode(body).ok THEN "leftover-bytes" ELSE "undecodable")
       ELSE IF ev.ast.mn \in NopK /\ Len(r.bytes) # (CHOOSE k \in 2..11 : ev.ast.mn = "nop" \o ToString(k)) THEN "nop-length"
       ELSE LET w == MatchWhy(ev.ast, OptRec(oi), d) IN
            IF w # "" THEN w
            ELSE IF Len(r.rax) = 8 /\ IsMovR64Imm(ev.ast) /\ r.rax # Val64(ev.ast.opds[2]) THEN "executed-value"
            ELSE ""

\* one run of a line that must be rejected: failure, and nothing written from the start of that line on
InvalidWhy(ev, r) ==
  IF r.ret = 0 THEN "accepted"
  ELSE IF r.pre < 0 THEN ""
  ELSE IF r.hi >= r.off0 + r.pre THEN "emitted"
  ELSE ""

RunWhy(ev, r, oi) ==
  IF r.fault # "none" THEN "C09:fault"
  ELSE IF r.outside = 1 THEN "C07:outside-buffer"
  ELSE IF r.outside = 2 THEN "C06:nondeterministic"
  ELSE IF r.outside = 3 THEN "C06:depends-on-buffer-contents"
  ELSE IF r.lo # -1 /\ r.lo < r.off0 THEN "C07:before-start-offset"
  ELSE IF r.ret \notin {0, 1} THEN "C09:return-value"
  ELSE IF ev.status = "Supported" THEN SupportedWhy(ev, r, oi)
  ELSE IF ev.status = "MayReject" THEN (IF r.ret = 0 THEN SupportedWhy(ev, r, oi) ELSE InvalidWhy(ev, [r EXCEPT !.ret = 1]))
  ELSE IF ev.status = "Invalid" THEN InvalidWhy(ev, r)
  ELSE ""

\* options to judge for a run group: every member when the line is option-sensitive, one representative otherwise
Reps(ev, r) == IF SensOf(ev) = {} THEN {r.o[1]} ELSE Rng(r.o)

Interference(ev) ==
  LET sens == SensOf(ev)  n == Len(ev.runs) IN
  \E a \in 1..n, b \in 1..n :
     /\ a < b /\ ev.runs[a].ctx = ev.runs[b].ctx /\ ev.runs[a].mode = ev.runs[b].mode
     /\ \E o1 \in Rng(ev.runs[a].o), o2 \in Rng(ev.runs[b].o) : Agree(o1, o2, sens)

\* a run is judged only for option indices it contains
FindingsOf(ev) ==
  (IF "fault" \in DOMAIN ev THEN {<<"C09:fault-" \o ev.fault, -1, "", "">>} ELSE {})
  \cup UNION { { <<RunWhy(ev, ev.runs[k], oi), oi, ev.runs[k].ctx, ev.runs[k].mode>> : oi \in Reps(ev, ev.runs[k]) } :
               k \in 1..Len(ev.runs) }
  \cup (IF Interference(ev) THEN {<<"C11:interference", -1, "", "">>} ELSE {})

BadOf(ev) == {f \in FindingsOf(ev) : f[1] # ""}
\* one line per distinct reason of an event (first option/context that shows it)
Report(ev) ==
  LET b == BadOf(ev)
      reasons == {f[1] : f \in b}
  IN \A w \in reasons : LET f == CHOOSE x \in b : x[1] = w IN PrintT("BAD|" \o ev.id \o "|" \o w \o "|" \o ToString(f[2]) \o "|" \o f[3] \o "|" \o f[4])

Init == l = 1 /\ nbad = 0
Next == /\ l <= Len(T)
        /\ l' = l + 1
        /\ LET b == BadOf(T[l]) IN
           nbad' = IF b = {} THEN nbad ELSE IF Report(T[l]) THEN nbad + 1 ELSE nbad
Spec == Init /\ [][Next]_vars
\* every event consumed exactly once
Accepted == /\ TLCGet("stats").diameter - 1 = Len(T)
            /\ PrintT(<<"JUDGED", Len(T)>>)
=============================================================================
