SPECIFICATION Spec
POSTCONDITION Accepted
CHECK_DEADLOCK FALSE
