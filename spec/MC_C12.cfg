SPECIFICATION Spec
CONSTANTS
 T = 4
 Q = 6
 NINST = 2
 LENS = {}
 MAXPROG = 0
 CAPS = {24}
 Q0 = 10
 CHUNKS = {}
 OFFS = {}
 KINDS = {"ext"}
 SETTERS = {"mov","swap","nobase","sib","all"}
 DEPTH = 100
 EMITACTS = {"opt","create"}
CONSTRAINT Bounded
VIEW View
ACTION_CONSTRAINT Emit
PROPERTY C06_Concat
PROPERTY C07_Contained
PROPERTY PrefixKept
PROPERTY C08_Growth
PROPERTY C13_Fit
PROPERTY C14_Count
PROPERTY C15_FailKeeps
PROPERTY C15_HistFree
PROPERTY C15_CountNeutral
PROPERTY C12_Options
