SPECIFICATION Spec
CONSTANTS
 T = 4
 Q = 6
 NINST = 1
 LENS = {1,2,3}
 MAXPROG = 3
 CAPS = {24}
 Q0 = 10
 CHUNKS = {}
 OFFS = {0,1,2,3}
 KINDS = {"ext","int"}
 SETTERS = {}
 DEPTH = 4
 EMITACTS = {"asm"}
CONSTRAINT Bounded
VIEW View
ACTION_CONSTRAINT Emit
PROPERTY C06_Concat
PROPERTY C07_Contained
PROPERTY PrefixKept
PROPERTY C08_Growth
PROPERTY C13_Fit
PROPERTY C14_Count
PROPERTY C15_FailKeeps
PROPERTY C15_HistFree
PROPERTY C15_CountNeutral
PROPERTY C12_Options
