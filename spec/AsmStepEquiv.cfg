SPECIFICATION ESpec
CONSTANTS
 T = 4
 Q = 6
 MAXLEN = 4
CONSTRAINT Bound
INVARIANT SameAsOne
INVARIANT SafeToo
CHECK_DEADLOCK FALSE
CONSTANT GrowRange <- SmallRange
