INIT Init
NEXT Next
