------------------------------ MODULE AsmFilter ------------------------------
(* The line filter (src/parser.c, filter_assembly_str_fsa) as a function on byte strings, and the lexical   *)
(* clauses of C16 / C10 / C09 stated on it:                                                                  *)
(*   - blanks are insignificant before the mnemonic and anywhere after the blank that ends it,               *)
(*   - letter case is insignificant, text after ';' or '%' is insignificant, LF / CR end the line,          *)
(*   - a byte above 0x7e before the end of the line rejects the line,                                        *)
(*   - at most LINE_CAP - 1 characters are kept.                                                             *)
(* Domain: every string of length 0..N over the alphabet Sigma (letters of both cases, bracket, digit,       *)
(* blank, tab, comma, the four line terminators, a control character, '!', '~', DEL, a byte above 0x7f).     *)
(* TLC (a) proves the clauses for the model function Filter on the whole domain, (b) evaluates the same      *)
(* clauses on the function the real filter computes (reported by the Filtered hook through                   *)
(* harness/filtrun.c for every string of the domain), (c) compares the two functions (conformance), also on  *)
(* the extra strings of the trace (boundary-length and styled lines).                                        *)
EXTENDS Integers, Sequences, FiniteSets, TLC, Json, IOUtils, SequencesExt

\* the filter buffer: 100 bytes in the code.  FCAP (model-only runs) scales it down so that the proof of the clauses on the
\* small domain also covers lines that fill the buffer, exactly and by one character too many
LINE_CAP == IF "FCAP" \in DOMAIN IOEnv THEN atoi(IOEnv.FCAP) ELSE 100
SigmaBig   == <<97, 65, 66, 91, 49, 32, 9, 44, 59, 37, 10, 13, 1, 33, 126, 128>>
SigmaSmall == <<97, 65, 91, 49, 32, 9, 44, 59, 10, 1, 128>>
Sigma == IF "FSIG" \in DOMAIN IOEnv /\ IOEnv.FSIG = "small" THEN SigmaSmall ELSE SigmaBig
K == Len(Sigma)
N == IF "FN" \in DOMAIN IOEnv THEN atoi(IOEnv.FN) ELSE 3
SigSet == {Sigma[r] : r \in 1..K}
Dom == UNION {[1..n -> SigSet] : n \in 0..N}

(* ------------------------------- the model -------------------------------- *)
IsStop(c) == c \in {59, 37, 13, 10}                      \* ; % CR LF (and the end of the text)
IsBlank(c) == c \in {32, 9}
Lower(c) == IF c >= 65 /\ c <= 90 THEN c + 32 ELSE c
\* one character in state st: the characters kept and the next state.  Bytes above 0x7f are negative `char`s for the code's
\* comparisons, so nothing is kept for them (the line is rejected anyway).
Step(st, c) ==
  LET pos == c < 128 IN
  CASE st = "BEGIN" -> IF pos /\ c >= 65 /\ c <= 122 THEN [st |-> "FIRST", keep |-> <<Lower(c)>>] ELSE [st |-> "BEGIN", keep |-> <<>>]
    [] st = "FIRST" -> IF pos /\ c > 33 THEN [st |-> "FIRST", keep |-> <<Lower(c)>>]
                       ELSE IF IsBlank(c) THEN [st |-> "SPACE", keep |-> <<32>>] ELSE [st |-> "FIRST", keep |-> <<>>]
    [] OTHER          -> IF pos /\ c > 33 THEN [st |-> "SPACE", keep |-> <<Lower(c)>>] ELSE [st |-> "SPACE", keep |-> <<>>]
\* ret = number of characters consumed (the index of the terminator, 0-based), -1 = rejected
RECURSIVE Fil(_, _, _, _)
Fil(s, i, st, out) ==
  IF i > Len(s) \/ IsStop(s[i]) THEN [ret |-> i - 1, out |-> out, st |-> st]
  \* the buffer is full: what would be dropped anyway (blanks and control characters behind the mnemonic) is still consumed
  ELSE IF Len(out) >= LINE_CAP - 1 THEN (IF st # "BEGIN" /\ s[i] <= 33 THEN Fil(s, i + 1, st, out) ELSE [ret |-> -1, out |-> out, st |-> st])
  ELSE LET x == Step(st, s[i]) IN
       IF s[i] > 126 THEN [ret |-> -1, out |-> out \o x.keep, st |-> x.st] ELSE Fil(s, i + 1, x.st, out \o x.keep)
Filter(s) == Fil(s, 1, "BEGIN", <<>>)
\* the FSM state in front of position k + 1 (after k characters), or "END" if the line ended or was rejected before
StateAfter(s, k) == LET r == Filter(SubSeq(s, 1, k)) IN IF r.ret = k THEN r.st ELSE "END"

(* ---------------------- the clauses, on any function F --------------------- *)
Ins(s, k, c) == SubSeq(s, 1, k) \o <<c>> \o SubSeq(s, k + 1, Len(s))
Swap(c) == IF c >= 65 /\ c <= 90 THEN c + 32 ELSE IF c >= 97 /\ c <= 122 THEN c - 32 ELSE c
FirstStop(s) == IF \E k \in 1..Len(s) : IsStop(s[k]) THEN CHOOSE k \in 1..Len(s) : IsStop(s[k]) /\ \A q \in 1..(k - 1) : ~IsStop(s[q]) ELSE Len(s) + 1
\* a blank inserted where the mnemonic has not started or has already been ended by a blank (or where one follows) changes nothing
AtEnd(s, k) == k = Len(s) \/ IsStop(s[k + 1])
BlankWhy(F(_), s) ==
  IF \E k \in 0..Len(s), b \in {32, 9} :
       /\ Len(s) < N /\ F(s).ret >= 0
       /\ (StateAfter(s, k) \in {"BEGIN", "SPACE"} \/ (StateAfter(s, k) = "FIRST" /\ (AtEnd(s, k) \/ IsBlank(s[k + 1]))))
       \* (a blank right after the mnemonic at the end of the line is kept as the - harmless - separator)
       /\ F(Ins(s, k, b)).out # (IF StateAfter(s, k) = "FIRST" /\ AtEnd(s, k) THEN F(s).out \o <<32>> ELSE F(s).out)
       \* (... which a mnemonic that fills the buffer has no room for: then it is dropped)
       /\ ~(StateAfter(s, k) = "FIRST" /\ AtEnd(s, k) /\ Len(F(s).out) = LINE_CAP - 1 /\ F(Ins(s, k, b)).out = F(s).out)
  THEN "C16:blank-changes-the-line"
  \* ... nor whether the line is accepted
  ELSE IF \E k \in 0..Len(s), b \in {32, 9} :
       /\ Len(s) < N /\ F(s).ret >= 0
       /\ (StateAfter(s, k) \in {"BEGIN", "SPACE"} \/ (StateAfter(s, k) = "FIRST" /\ (AtEnd(s, k) \/ IsBlank(s[k + 1]))))
       /\ F(Ins(s, k, b)).ret < 0
  THEN "C16:blank-makes-the-line-rejected" ELSE ""
CaseWhy(F(_), s) ==
  IF \E k \in 1..Len(s) : LET t == [s EXCEPT ![k] = Swap(s[k])] IN t \in Dom /\ F(s).ret >= 0 /\ (F(t).out # F(s).out \/ F(t).ret # F(s).ret)
  THEN "C16:letter-case-changes-the-line" ELSE ""
CommentWhy(F(_), s) ==
  LET k == FirstStop(s) IN
  IF k <= Len(s) /\ (F(s).ret # F(SubSeq(s, 1, k - 1)).ret \/ (F(s).ret >= 0 /\ F(s).out # F(SubSeq(s, 1, k - 1)).out))
  THEN "C16:text-after-the-line-end-or-comment-changes-the-line" ELSE ""
AsciiWhy(F(_), s) ==
  IF (\E k \in 1..(FirstStop(s) - 1) : s[k] > 126) /\ F(s).ret # -1 THEN "C10:byte-above-0x7e-accepted" ELSE ""
CapWhy(F(_), s) == IF Len(F(s).out) > LINE_CAP - 1 THEN "C09:filter-buffer-overrun" ELSE ""
First(ws) == IF \E k \in 1..Len(ws) : ws[k] # "" THEN ws[CHOOSE k \in 1..Len(ws) : ws[k] # "" /\ \A q \in 1..(k - 1) : ws[q] = ""] ELSE ""
Clauses(F(_), s) == First(<<CapWhy(F, s), AsciiWhy(F, s), CommentWhy(F, s), CaseWhy(F, s), BlankWhy(F, s)>>)

\* (a) the model has the clauses on the whole domain
ModelOK == \A s \in Dom : Clauses(Filter, s) = "" \/ (PrintT(<<"MODEL-FAILS", s, Clauses(Filter, s)>>) /\ FALSE)
ASSUME ("FCHECK" \in DOMAIN IOEnv) => ModelOK

(* ------------------------------ the observation ---------------------------- *)
\* Tr[1..DomSize] = the domain in canonical order (by length, then by alphabet rank), then extra strings
Tr == IF "TRACE" \in DOMAIN IOEnv THEN ndJsonDeserialize(IOEnv.TRACE) ELSE <<>>
RECURSIVE Pow(_, _)
Pow(b, e) == IF e = 0 THEN 1 ELSE b * Pow(b, e - 1)
Offset(n) == IF n = 0 THEN 0 ELSE LET f[m \in 0..n] == IF m = 0 THEN 0 ELSE f[m - 1] + Pow(K, m - 1) IN f[n]      \* strings shorter than n
DomSize == Offset(N + 1)
Rank(c) == CHOOSE r \in 1..K : Sigma[r] = c
RECURSIVE Num(_, _)
Num(s, k) == IF k = 0 THEN 0 ELSE Num(s, k - 1) * K + (Rank(s[k]) - 1)
Index(s) == Offset(Len(s)) + Num(s, Len(s)) + 1
Obs(s) == Tr[Index(s)]
\* (ret = -2: the call never reached the filter, which only happens for the empty text: nothing kept, nothing consumed)
ObsF(s) == LET e == Obs(s) IN IF e.ret = -2 THEN [ret |-> 0, out |-> <<>>] ELSE [ret |-> e.ret, out |-> e.out]

VARIABLES l, nbad
Why(e, j) ==
  IF "fault" \in DOMAIN e THEN "C09:fault-" \o e.fault
  ELSE IF j <= DomSize /\ Index(e.s) # j THEN "driver:order"
  ELSE IF e.cret \notin {0, 1} THEN "C09:return-value"
  ELSE IF e.ret = -2 THEN (IF Len(e.s) = 0 THEN "" ELSE "mech:filter-not-invoked")
  ELSE IF e.ret = -1 /\ e.cret # 1 THEN "C10:rejected-by-the-filter-but-call-succeeded"
  ELSE IF j <= DomSize /\ Clauses(ObsF, e.s) # "" THEN Clauses(ObsF, e.s)
  ELSE IF Len(e.out) > LINE_CAP - 1 THEN "C09:filter-buffer-overrun"
  \* (the clause about bytes above 0x7e needs no neighbour string: it is evaluated on the extra strings as well)
  ELSE IF (\E k \in 1..(FirstStop(e.s) - 1) : e.s[k] > 126) /\ e.ret # -1 THEN "C10:byte-above-0x7e-accepted"
  ELSE LET m == Filter(e.s) IN
       IF e.ret # m.ret \/ (m.ret >= 0 /\ e.out # m.out) THEN "mech:filter-model" ELSE ""
Init == l = 1 /\ nbad = 0
Next == /\ l <= Len(Tr) /\ l' = l + 1
        /\ LET w == Why(Tr[l], l) IN nbad' = IF w = "" THEN nbad ELSE IF PrintT("BAD|" \o ToString(l) \o "|" \o w \o "|" \o ToString(l) \o "||") THEN nbad + 1 ELSE nbad
Spec == Init /\ [][Next]_<<l, nbad>>
Accepted == TLCGet("stats").diameter - 1 = Len(Tr) /\ PrintT(<<"JUDGED", Len(Tr)>>)
=============================================================================
