------------------------------ MODULE ApiTrace ------------------------------
(* Trace specification for API histories (DESIGN 3.5): every recorded call of *)
(* the real library is replayed against the mechanism of AsmMech.tla with the *)
(* library's real constants (cfg: T = 20, Q = 6000), and the property         *)
(* predicates of C06 C07 C08 C12 C13 C14 C15 are evaluated on the recorded    *)
(* observation itself (bytes, offsets, changed cells, hook steps, twins).     *)
(* Reasons "Cxx:..." are property violations; "mech:..." means the code no    *)
(* longer follows the mechanism although no property predicate failed on     *)
(* that event (model drift, reported but never a violation by itself).        *)
(*                                                                            *)
(* T[1] = [e:"Codes", codes: key -> <<code under option 0, ..., option 11>>]  *)
(* then per execution: Create / Opt / SetChunk / SetOffset / Asm / Count /    *)
(* Probe / Exec / Destroy ... Reset.                                          *)
EXTENDS AsmMech, X86, Json, IOUtils, TLC

Q0 == Q + T                                \* initial capacity of a library-managed buffer
Tr == ndJsonDeserialize(IOEnv.TRACE)
CODES == Tr[1].codes
MAXI == 4
VARIABLES l, inst, nbad, armed          \* armed: the OS call most recently armed to be refused
vars == <<l, inst, nbad, armed>>
Dead == [alive |-> FALSE, ext |-> FALSE, cap |-> 0, off |-> 0, fit |-> 0, opt |-> DefaultOpt]
Ev == Tr[l]
RngT(s) == {s[k] : k \in 1..Len(s)}

OptIdx(o) == (CASE o.mov = "STRICT" -> 0 [] o.mov = "NASM" -> 4 [] OTHER -> 8) + (IF o.swap = "NASM" THEN 2 ELSE 0) + (IF o.nobase = "NASM" THEN 1 ELSE 0)
CodeOf(key, o) == CODES[key][OptIdx(o) + 1]
OptName(v) == IF v = 0 THEN "STRICT" ELSE IF v = 1 THEN "NASM" ELSE IF v = 2 THEN "SMART" ELSE "BAD"

\* (range-halving recursions: see the remark at RunSeg in AsmMech.tla)
RECURSIVE ConcatSeg(_, _, _)
ConcatSeg(ss, lo, hi) == IF lo > hi THEN <<>> ELSE IF lo = hi THEN ss[lo] ELSE LET mid == (lo + hi) \div 2 IN ConcatSeg(ss, lo, mid) \o ConcatSeg(ss, mid + 1, hi)
Concat(ss, j) == ConcatSeg(ss, j, Len(ss))

(* -------- compare the bytes written with the layout the mechanism / the reference prescribes -------- *)
\* items: <<[k, pos, len]>> ; codes: code of the j-th instruction item ; out: bytes from off0
\* LaySeg: first complaint in items[lo..hi] given that nins instruction items precede them; [why, nins after]
RECURSIVE LaySeg(_, _, _, _, _, _, _)
LaySeg(items, codes, out, off0, lo, hi, nins) ==
  IF lo > hi THEN [why |-> "", nins |-> nins]
  ELSE IF lo = hi
  THEN LET it == items[lo]
           a  == it.pos - off0 + 1
           b  == it.pos - off0 + it.len
       IN IF b > Len(out) \/ a < 1 THEN [why |-> "short-output", nins |-> nins]
          ELSE IF it.k = "pad"
               THEN [why |-> IF AllNops(SubSeq(out, a, b)) THEN "" ELSE "padding-is-not-nops", nins |-> nins]
               ELSE [why |-> IF SubSeq(out, a, b) = codes[nins + 1] THEN "" ELSE "instruction-bytes", nins |-> nins + 1]
  ELSE LET mid == (lo + hi) \div 2
           x == LaySeg(items, codes, out, off0, lo, mid, nins)
       IN IF x.why # "" THEN x ELSE LaySeg(items, codes, out, off0, mid + 1, hi, x.nins)
LayoutWhy(items, codes, out, off0, j, nins) == LaySeg(items, codes, out, off0, j, Len(items), nins).why

ItemsEnd(items, off0) == IF items = <<>> THEN off0 ELSE items[Len(items)].pos + items[Len(items)].len

StepName(s) == IF s.k = "growmoved" THEN "grow" ELSE s.k
StepsMatch(logged, model) ==
  /\ Len(logged) = Len(model)
  /\ \A k \in 1..Len(model) : StepName(logged[k]) = model[k].k /\ logged[k].pos = model[k].pos /\ logged[k].len = model[k].len /\ logged[k].cap = model[k].cap

\* observed option state from the four probe lines (DESIGN C12)
Narrowed(code) == LET d == DecodeOne(code) IN d.ok /\ d.op = "mov" /\ d.ops[1].w = 32
ProbeOpt(codes) ==
  LET n1 == Narrowed(codes[1])  n2 == Narrowed(codes[2])
      d3 == DecodeOne(codes[3])  d4 == DecodeOne(codes[4])
  IN IF ~d3.ok \/ ~d4.ok \/ Len(codes[1]) = 0 \/ Len(codes[2]) = 0 THEN [mov |-> "?", swap |-> "?", nobase |-> "?"]
     ELSE [mov    |-> IF n1 /\ n2 THEN "NASM" ELSE IF n1 THEN "SMART" ELSE IF ~n2 THEN "STRICT" ELSE "?",
           swap   |-> IF d3.ops[2].raw.base = 4 /\ d3.ops[2].raw.index = 0 THEN "NASM"
                      ELSE IF d3.ops[2].raw.base = 0 /\ d3.ops[2].raw.index = -1 THEN "STRICT" ELSE "?",
           nobase |-> IF d4.ops[2].raw.base = 0 /\ d4.ops[2].raw.index = 0 THEN "NASM"
                      ELSE IF d4.ops[2].raw.base = -1 /\ d4.ops[2].raw.index = 0 /\ d4.ops[2].raw.scale = 2 THEN "STRICT" ELSE "?"]

(* ------------------------------- the judge ------------------------------- *)
\* refusals that must surface as the documented failure value: every OS call except munmap / close / free
\* (e.calls lists the OS calls the library made, one letter each: a malloc b mmap c mremap d munmap e open f fstat
\*  g read h close i fopen j fwrite k fclose l free)
\* (an early end of the file is no refusal: the call may fail or assemble what there is - it must end and keep the instance intact)
MustReport == armed \notin {"munmap", "close", "close-eintr", "free", "read-eof", ""}

TwinDiffers(e) == e.twin.ret # e.ret \/ e.twin.off1 # e.off1 \/ e.twin.dest # e.dest \/ (e.twin.outok /\ e.outok /\ e.twin.out # e.out)

JudgeCall(e, s, isCount) ==
  LET codes == [j \in 1..Len(e.prog) |-> CodeOf(e.prog[j], s.opt)]
      lens  == [j \in 1..Len(codes) |-> Len(codes[j])]
      good  == \A j \in 1..Len(lens) : lens[j] > 0
      m     == IF isCount THEN (IF e.c < 2 THEN "A" ELSE "C") ELSE (IF s.fit >= 2 THEN "F" ELSE "A")
      c     == IF isCount THEN e.c ELSE s.fit
      r     == Run(s.off, s.cap, lens, m, c, s.ext)
      okc   == SelectSeq(codes, LAMBDA x : Len(x) > 0)
      plain == Concat(codes, 1)
      tot   == Len(plain)
  IN
  \* ---- an OS call the library made during this call was refused (C17) ----
  IF e.inj THEN
     (IF e.ret \notin {0, 1} THEN "C09:return-value"
      ELSE IF MustReport /\ e.ret # 1 THEN "C17:failure-not-reported"
      ELSE IF e.ret = 1 /\ e.off1 # e.off0 THEN "C17:failed-call-moved-offset"
      ELSE IF s.ext /\ (e.outside # 0 \/ (e.lo # -1 /\ e.lo < e.off0)) THEN "C17:earlier-code-damaged"
      ELSE IF ~s.ext /\ e.outside = 4 THEN "C17:earlier-code-damaged"
      ELSE "")
  \* ---- properties, on the observation ----
  ELSE IF ~e.det THEN "C06:nondeterministic-or-depends-on-buffer-contents"
  ELSE IF e.ret \notin {0, 1} THEN "C09:return-value"
  \* a file entry point is judged against its in-memory counterpart first (C19); what both get wrong is reported below
  ELSE IF "twin" \in DOMAIN e /\ e.file /\ ("twcfg" \in DOMAIN e => e.twcfg = <<s.opt.mov, s.opt.swap, s.opt.nobase, s.fit, s.off>>) /\ TwinDiffers(e)
       THEN "C19:file-differs-from-string"
  ELSE IF s.ext /\ e.outside # 0 THEN "C07:outside-buffer"
  ELSE IF s.ext /\ e.lo # -1 /\ (e.lo < e.off0 \/ e.hi >= s.cap) THEN "C07:outside-buffer-or-before-start"
  ELSE IF s.ext /\ \E st \in RngT(e.steps) : st.k # "grow" /\ (st.pos + st.len > s.cap \/ st.pos + T > s.cap) THEN "C07:reserve"
  ELSE IF ~s.ext /\ e.outside = 4 THEN "C08:growth-lost-earlier-bytes"
  ELSE IF ~s.ext /\ good /\ e.ret # 0 THEN "C08:failed-on-managed-buffer"
  \* a program of valid lines for which the documented room rule (20 reserve bytes before every instruction) is satisfied must assemble,
  \* whatever blank, comment or label lines and line ends it contains
  ELSE IF s.ext /\ good /\ e.ret # 0 /\ r.ok /\ ~("expectfail" \in DOMAIN e) THEN "C06:valid-program-with-room-rejected"
  ELSE IF e.off0 # s.off THEN "C15:start-offset"
  ELSE IF e.ret # 0 /\ e.off1 # e.off0 THEN "C15:failed-call-moved-offset"
  ELSE IF "expectfail" \in DOMAIN e /\ e.ret = 0 THEN "C19:missing-or-unreadable-file-accepted"
  ELSE IF "expectfail" \in DOMAIN e THEN (IF e.off1 = e.off0 /\ e.lo = -1 THEN "" ELSE "C19:failed-file-call-wrote")
  ELSE IF ~good /\ e.ret = 0 THEN "C10:accepted"
  ELSE IF e.ret = 0 /\ m # "F" /\ (e.off1 # e.off0 + tot \/ (e.outok /\ e.out # plain)) THEN "C06:not-concatenation"
  ELSE IF e.ret = 0 /\ isCount /\ e.dest # RefBreaks(lens, c, e.off0) THEN "C14:count"
  ELSE IF e.ret = 0 /\ m = "F" /\ e.outok /\ (LET ref == RefFit(lens, c, e.off0, 1) IN
                                              e.off1 # ItemsEnd(ref, e.off0) \/ LayoutWhy(ref, codes, e.out, e.off0, 1, 0) # "") THEN "C13:fitting"
  ELSE IF "twcfg" \in DOMAIN e /\ e.twcfg # <<s.opt.mov, s.opt.swap, s.opt.nobase, s.fit, s.off>> THEN "driver:twin-config"
  ELSE IF "twin" \in DOMAIN e /\ TwinDiffers(e)
       THEN (IF e.file THEN "C19:file-differs-from-string" ELSE "C15:differs-from-fresh-instance")
  ELSE IF "mirror" \in DOMAIN e /\ (e.mirror.ret # e.ret \/ (e.ret = 0 /\ (e.mirror.off1 # e.off1 \/ e.mirror.hash # e.hash)))
       THEN "C08:differs-from-caller-buffer"
  \* ---- mechanism conformance ----
  ELSE IF e.ret # (IF r.ok THEN 0 ELSE 1) THEN "mech:ret"
  ELSE IF e.off1 # (IF r.ok THEN r.p ELSE s.off) THEN "mech:off"
  ELSE IF e.nsteps <= 48 /\ ~StepsMatch(e.steps, r.steps) THEN "mech:steps"
  ELSE IF isCount /\ r.ok /\ e.dest # r.brk THEN "mech:dest"
  ELSE IF e.outok /\ LayoutWhy(r.items, okc, e.out, e.off0, 1, 0) \notin (IF e.ret = 0 THEN {""} ELSE {"", "short-output"}) THEN "mech:bytes"
  ELSE ""

CapAfterFault(e, s) ==        \* after a refused OS call the capacity is whatever the last logged step reports
  IF e.lastcap < 0 THEN s.cap ELSE e.lastcap
NewCap(e, s, isCount) ==     \* the capacity the mechanism predicts after the call (library-managed buffers grow)
  LET lens == [j \in 1..Len(e.prog) |-> Len(CodeOf(e.prog[j], s.opt))]
      m == IF isCount THEN (IF e.c < 2 THEN "A" ELSE "C") ELSE (IF s.fit >= 2 THEN "F" ELSE "A")
      c == IF isCount THEN e.c ELSE s.fit
  IN IF s.ext THEN s.cap ELSE Run(s.off, s.cap, lens, m, c, s.ext).cap

Report(why) == PrintT("BAD|" \o Ev.sid \o "|" \o why \o "|" \o ToString(l) \o "|" \o Ev.e \o "|")
Advance(newinst, why) ==
  /\ l' = l + 1 /\ inst' = newinst
  /\ armed' = IF Ev.e = "Arm" THEN Ev.call ELSE IF Ev.e = "Reset" \/ ("inj" \in DOMAIN Ev /\ Ev.inj) THEN "" ELSE armed
  /\ nbad' = IF why = "" THEN nbad ELSE IF Report(why) THEN nbad + 1 ELSE nbad

Init == l = 2 /\ inst = [i \in 1..MAXI |-> Dead] /\ nbad = 0 /\ armed = ""

Create  == Ev.e = "Create" /\
           Advance([inst EXCEPT ![Ev.i] = IF Ev.ret = 0 THEN [alive |-> TRUE, ext |-> Ev.ext, cap |-> IF Ev.ext THEN Ev.cap ELSE Q0, off |-> 0, fit |-> 0, opt |-> DefaultOpt] ELSE Dead],
                   IF Ev.inj THEN (IF Ev.ret = 1 THEN "" ELSE "C17:failure-not-reported")
                   ELSE IF Ev.ret = 0 THEN "" ELSE "C17:create-failed-without-cause")
Destroy == Ev.e = "Destroy" /\ Advance([inst EXCEPT ![Ev.i] = Dead], IF Ev.ret = 0 THEN "" ELSE "C17:destroy-failed")
\* asm_create_bin_file: EXIT_SUCCESS only if the complete code reached the file; the file holds exactly [0, offset)
BinFile == Ev.e = "BinFile" /\
           Advance(inst, IF Ev.blen # inst[Ev.i].off THEN "mech:binfile-offset"
                         ELSE IF Ev.ret = 0 /\ (Ev.flen # Ev.blen \/ Ev.fhash # Ev.bhash) THEN (IF Ev.inj THEN "C17:success-but-file-incomplete" ELSE "C19:binfile-contents")
                         ELSE IF Ev.ret # 0 /\ ~Ev.inj /\ ~("expectfail" \in DOMAIN Ev) THEN "C19:binfile-failed"
                         ELSE IF Ev.ret = 0 /\ "expectfail" \in DOMAIN Ev THEN "C19:binfile-unwritable-path-succeeded"
                         ELSE IF Ev.inj /\ Ev.ret = 0 /\ Ev.blen > 0 /\ MustReport /\ (Ev.flen # Ev.blen) THEN "C17:failure-not-reported"
                         ELSE "")
Skip2   == Ev.e \in {"Arm", "Skipped"} /\ Advance(inst, "")
Reset   == Ev.e = "Reset" /\ Advance([i \in 1..MAXI |-> Dead], "")
Fault   == Ev.e = "Fault" /\ Advance(inst, "C09:fault")
Other   == Ev.e \in {"Mirror", "SetDebug"} /\ Advance(inst, "")
Opt     == Ev.e = "Opt" /\ Advance([inst EXCEPT ![Ev.i].opt = Apply(Ev.s, inst[Ev.i].opt, OptName(Ev.v))], "")
SetChunk  == Ev.e = "SetChunk" /\ Advance([inst EXCEPT ![Ev.i].fit = IF Ev.c < 2 THEN 0 ELSE Ev.c], "")
SetOffset == Ev.e = "SetOffset" /\ Advance([inst EXCEPT ![Ev.i].off = Ev.k], "")
Probe   == Ev.e = "Probe" /\ Advance(inst, IF ProbeOpt(Ev.codes) = inst[Ev.i].opt THEN "" ELSE "C12:option-state")
Exec    == Ev.e = "Exec" /\ Advance(inst, IF "expect" \in DOMAIN Ev /\ Ev.rax # Ev.expect THEN "C08:executed-value" ELSE "")
Asm     == Ev.e = "Asm" /\ LET s == inst[Ev.i] IN
             Advance([inst EXCEPT ![Ev.i].off = Ev.off1, ![Ev.i].cap = IF Ev.inj THEN CapAfterFault(Ev, s) ELSE NewCap(Ev, s, FALSE)], JudgeCall(Ev, s, FALSE))
\* a counting call without a place for the count (dest = NULL): it may refuse (chunk size >= 2) or assemble plainly, never crash or move the offset when refusing
CountNull == Ev.e = "Count" /\ "nulld" \in DOMAIN Ev /\ Ev.nulld /\ LET s == inst[Ev.i] IN
             Advance([inst EXCEPT ![Ev.i].off = Ev.off1, ![Ev.i].cap = IF Ev.lastcap < 0 THEN s.cap ELSE Ev.lastcap],
                     IF Ev.ret \notin {0, 1} THEN "C09:return-value"
                     ELSE IF Ev.ret = 1 /\ Ev.off1 # Ev.off0 THEN "C15:failed-call-moved-offset"
                     ELSE IF Ev.ret = 0 /\ Ev.c >= 2 THEN "C14:count-lost-without-error"
                     \* (below 2 - zero, one, negative - the call is a plain assembly: there is nothing to count and nothing to refuse)
                     ELSE IF Ev.ret = 1 /\ Ev.c < 2 /\ "mustpass" \in DOMAIN Ev THEN "C14:plain-assembly-through-the-counting-call-refused"
                     ELSE IF s.ext /\ Ev.outside # 0 THEN "C07:outside-buffer"
                     ELSE "")
Count   == Ev.e = "Count" /\ ~("nulld" \in DOMAIN Ev /\ Ev.nulld) /\ LET s == inst[Ev.i] IN
             Advance([inst EXCEPT ![Ev.i].off = Ev.off1, ![Ev.i].cap = IF Ev.inj THEN CapAfterFault(Ev, s) ELSE NewCap(Ev, s, TRUE)], JudgeCall(Ev, s, TRUE))

\* C12 on the learned code table: the code of a line changes only with the option dimensions the line depends on
OptRecOf(oi) == [mov |-> (oi \div 4), swap |-> ((oi \div 2) % 2), nobase |-> (oi % 2)]
SameOn(dims, a, b) == \A d \in dims : OptRecOf(a)[d] = OptRecOf(b)[d]
Sens    == Ev.e = "Sens" /\
           Advance(inst, IF \E a \in 0..11, b \in 0..11 : SameOn({Ev.dims[k] : k \in 1..Len(Ev.dims)}, a, b) /\ CODES[Ev.key][a + 1] # CODES[Ev.key][b + 1]
                         THEN "C12:option-dimension-changes-a-line-it-does-not-govern"
                         \* the options choose between encodings, never whether a line is accepted (a rejected line has the empty code)
                         ELSE IF \E a \in 0..11, b \in 0..11 : CODES[Ev.key][a + 1] = <<>> /\ CODES[Ev.key][b + 1] # <<>>
                         THEN "C11:option-setting-decides-whether-a-line-is-accepted" ELSE "")

Next == l <= Len(Tr) /\ (Sens \/ CountNull \/ Create \/ Destroy \/ Reset \/ Fault \/ Other \/ BinFile \/ Skip2 \/ Opt \/ SetChunk \/ SetOffset \/ Probe \/ Exec \/ Asm \/ Count)
Spec == Init /\ [][Next]_vars
Accepted == TLCGet("stats").diameter = Len(Tr) /\ PrintT(<<"JUDGED", Len(Tr) - 1>>)
=============================================================================
