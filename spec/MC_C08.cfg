SPECIFICATION Spec
CONSTANTS
 T = 4
 Q = 6
 NINST = 1
 LENS = {1,2,3,4}
 MAXPROG = 3
 CAPS = {0}
 Q0 = 10
 CHUNKS = {0,3,5}
 OFFS = {0,9,13,14,19,25}
 KINDS = {"int"}
 SETTERS = {}
 DEPTH = 5
 EMITACTS = {"asm","count"}
CONSTRAINT Bounded
VIEW View
ACTION_CONSTRAINT Emit
PROPERTY C06_Concat
PROPERTY C07_Contained
PROPERTY PrefixKept
PROPERTY C08_Growth
PROPERTY C13_Fit
PROPERTY C14_Count
PROPERTY C15_FailKeeps
PROPERTY C15_HistFree
PROPERTY C15_CountNeutral
PROPERTY C12_Options
