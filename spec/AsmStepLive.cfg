SPECIFICATION LSpec
CONSTANTS
 T = 4
 Q = 6
 MAXLEN = 4
CONSTANT GrowRange <- SmallRange
PROPERTY Terminates
PROPERTY PadsTwiceAtMost
PROPERTY Quiescent
CHECK_DEADLOCK FALSE
