INIT Init
NEXT Next
CONSTANTS
 T = 4
 Q = 6
