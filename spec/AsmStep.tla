------------------------------- MODULE AsmStep -------------------------------
(* The room / grow / pad / write steps of an assemble call as a state machine with one action per critical section of    *)
(* the code (check_len_or_resize, the trial write and the padding of assemble_with_chunk_fitting, the final write), over  *)
(* UNBOUNDED integers: any position, capacity, chunk size, growth quantum, any instruction length up to MAXLEN <= T.      *)
(*                                                                                                                        *)
(* Purpose: C07 / C08 for all sizes at the level of the design.  Apalache proves that IndInv is inductive                 *)
(* (Init => IndInv, IndInv /\ Next => IndInv') and implies Safe: every write of every step lies below the capacity and   *)
(* starts at least T bytes before it, and the position never passes the capacity.  (TLC explores AsmApi.tla / AsmMech.tla *)
(* exhaustively for small constants only.)  AsmStepEquiv.tla has TLC check, for small constants, that the steps this      *)
(* machine takes for one instruction are exactly the steps of AsmMech!One, the operator the trace specification compares  *)
(* the hook-reported steps of the real code with; so the proof speaks about the same mechanism the code is bound to.      *)
EXTENDS Integers

CONSTANTS
  \* @type: Int;
  T,        \* reserve in front of every instruction (20)
  \* @type: Int;
  Q,        \* growth quantum of a library-managed buffer (6000)
  \* @type: Int;
  MAXLEN    \* longest instruction the assembler emits (15 architecturally; 13 for this library)

ASSUME T >= MAXLEN /\ MAXLEN >= 1 /\ Q >= T      \* (one growth step from a position inside the buffer must restore the reserve: Apalache finds the counterexample for Q < T)

\* candidates for the capacity after a growth (the trace-bound instance AsmStepEquiv.tla replaces this by a finite range)
GrowRange == Int

VARIABLES
  \* @type: Int;
  pos,      \* write position
  \* @type: Int;
  cap,      \* capacity of the attached buffer
  \* @type: Bool;
  ext,      \* caller-provided buffer (never grows)
  \* @type: Str;
  mode,     \* "A" plain, "F" chunk fitting, "C" chunk counting
  \* @type: Int;
  c,        \* chunk size
  \* @type: Str;
  phase,    \* "idle" | "room" | "decide" | "failed"
  \* @type: Int;
  len,      \* length of the instruction being placed
  \* @type: Int;
  n,        \* padding rounds done for it
  \* @type: Int;
  wlo,      \* last write: [wlo, whi)  (wlo = -1: none yet)
  \* @type: Int;
  whi

vars == <<pos, cap, ext, mode, c, phase, len, n, wlo, whi>>

\* a new instance with a caller buffer of any size, or a library-managed one (T + Q bytes); any mode; any offset the
\* caller may set (asm_set_offset): inside a caller buffer (C07: 0 <= k <= n), anywhere at all on a library-managed one
Init ==
  /\ ext \in BOOLEAN /\ mode \in {"A", "F", "C"}
  /\ c \in Int /\ c >= 2
  /\ cap \in Int /\ cap >= 0 /\ (~ext => cap = T + Q)
  /\ pos \in Int /\ pos >= 0 /\ (ext => pos <= cap)
  /\ phase = "idle" /\ len = 1 /\ n = 0 /\ wlo = -1 /\ whi = -1

\* the parser delivered an instruction of k bytes
Begin ==
  /\ phase = "idle"
  /\ \E k \in 1..MAXLEN : len' = k
  /\ phase' = "room" /\ n' = 0
  /\ UNCHANGED <<pos, cap, ext, mode, c, wlo, whi>>

\* check_len_or_resize: fewer than T bytes left -> fail on a caller buffer, grow a library-managed one by Q - or, when
\* asm_set_offset has put the position further out, by the least number of quanta that restores the reserve.  (That the
\* growth is a whole number of quanta is irrelevant for safety and would make the step relation non-linear; it is part
\* of AsmMech!GrowCap and checked against this action by AsmStepEquiv.tla.)
Grown(cp) == cp >= cap + Q /\ cp >= pos + T /\ (cp = cap + Q \/ cp - Q < pos + T)
Room ==
  /\ phase = "room"
  /\ IF pos + T > cap
     THEN IF ext THEN phase' = "failed" /\ cap' = cap
                 ELSE phase' = "decide" /\ \E cp \in GrowRange : Grown(cp) /\ cap' = cp
     ELSE phase' = "decide" /\ cap' = cap
  /\ UNCHANGED <<pos, ext, mode, c, len, n, wlo, whi>>

Free == IF mode = "A" THEN 0 ELSE c - (pos % c)
MustPad == mode = "F" /\ ~(len <= Free \/ len >= c) /\ n < 2

\* chunk fitting: the instruction (already written on trial at pos) would straddle the chunk end: NOPs up to the chunk end,
\* then the room check again
Pad ==
  /\ phase = "decide" /\ MustPad
  /\ wlo' = pos /\ whi' = pos + (IF len > Free THEN len ELSE Free)      \* trial write of len bytes, then Free bytes of NOPs, both at pos
  /\ pos' = pos + Free /\ n' = n + 1 /\ phase' = "room"
  /\ UNCHANGED <<cap, ext, mode, c, len>>

\* the instruction is written at pos
Emit ==
  /\ phase = "decide" /\ ~MustPad
  /\ wlo' = pos /\ whi' = pos + len
  /\ pos' = pos + len /\ phase' = "idle"
  /\ UNCHANGED <<cap, ext, mode, c, len, n>>

\* between calls the caller may change mode and chunk size (asm_set_chunk_size / the counting entry point)
Reconf ==
  /\ phase = "idle"
  /\ mode' \in {"A", "F", "C"} /\ c' \in Int /\ c' >= 2
  /\ UNCHANGED <<pos, cap, ext, phase, len, n, wlo, whi>>

\* asm_set_offset between calls
SetOffset ==
  /\ phase = "idle"
  /\ pos' \in Int /\ pos' >= 0 /\ (ext => pos' <= cap)
  /\ UNCHANGED <<cap, ext, mode, c, phase, len, n, wlo, whi>>

Next == Begin \/ Room \/ Pad \/ Emit \/ Reconf \/ SetOffset

(* ------------------------------ properties ------------------------------- *)
\* C07 (and the in-bounds half of C08): every write lies inside the buffer and starts at least T bytes before its end;
\* the position of a caller buffer never passes its end (a library-managed position may be set beyond the capacity: the
\* next instruction grows the buffer to it first)
Safe == /\ wlo >= 0 => (whi <= cap /\ wlo + T <= cap)
        /\ ext => pos <= cap
        /\ phase = "decide" => pos + T <= cap

TypeOK ==
  /\ ext \in BOOLEAN /\ mode \in {"A", "F", "C"} /\ phase \in {"idle", "room", "decide", "failed"}
  /\ c \in Int /\ pos \in Int /\ cap \in Int /\ len \in Int /\ n \in Int /\ wlo \in Int /\ whi \in Int

IndInv ==
  /\ TypeOK
  /\ c >= 2 /\ pos >= 0 /\ cap >= 0 /\ len >= 1 /\ len <= MAXLEN /\ n >= 0 /\ n <= 2
  /\ ext => pos <= cap
  /\ phase = "decide" => pos + T <= cap
  /\ wlo >= -1 /\ (wlo >= 0 => (whi <= cap /\ wlo + T <= cap))

\* Apalache: constants are arbitrary integers satisfying the assumption
ConstInit == T \in Int /\ Q \in Int /\ MAXLEN \in Int /\ T >= MAXLEN /\ MAXLEN >= 1 /\ Q >= T
=============================================================================
