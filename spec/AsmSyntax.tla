----------------------------- MODULE AsmSyntax -----------------------------
(* Language layer (DESIGN 3.2): abstract syntax of an AssemblyLine input     *)
(* line, the meaning of a line as a predicate on the decoded instruction     *)
(* (written against X86.tla, not against the encoder), the option-dependent  *)
(* cases of C11, and the kind-level classification used by C10.              *)
(*                                                                           *)
(* AST (also the JSON shape of corpus records):                              *)
(*   ast  = [mn, opds]                                                       *)
(*   opd  = [k:"r", f:"g"|"m"|"x"|"y", w, n, h]                              *)
(*        | [k:"m", kw, far, w, a, b, i, s, ord, hasd, neg, dm, dr]          *)
(*            kw   size keyword as written ("" if none)                      *)
(*            w    access width meant (0 for lea)                            *)
(*            a    address size 64|32 (64 for a bare displacement)           *)
(*            b,i  base / index register number or -1 ; s scale 0(unwritten) *)
(*            ord  "is" = index*scale, "si" = scale*index                    *)
(*            hasd/neg/dm/dr displacement: present, sign, 4-byte magnitude,  *)
(*                 radix "hex"|"dec"                                         *)
(*        | [k:"i", kw:""|"short"|"long", neg, mag (8 bytes), radix, digits] *)
(*   opts = [mov, swap, nobase]  each "STRICT"|"NASM" (mov also "SMART")     *)
EXTENDS X86, SequencesExt

Rng(s) == {s[i] : i \in 1..Len(s)}

(* ------------------------- byte-sequence arithmetic --------------------- *)
Zeros(n) == [k \in 1..n |-> 0]
RECURSIVE IncB(_, _)
IncB(bs, k) ==                       \* bs + 1 (little endian), wrapping
  IF k > Len(bs) THEN bs
  ELSE IF bs[k] = 255 THEN IncB([bs EXCEPT ![k] = 0], k + 1)
  ELSE [bs EXCEPT ![k] = bs[k] + 1]
NegB(bs) == IncB([k \in 1..Len(bs) |-> 255 - bs[k]], 1)
IsZero(bs) == \A k \in 1..Len(bs) : bs[k] = 0
Val64(im) == IF im.neg THEN NegB(im.mag) ELSE im.mag        \* written value, 64-bit two's complement
Disp32(m) == IF ~m.hasd THEN Zeros(4) ELSE IF m.neg THEN NegB(m.dm) ELSE m.dm
FitsZ(bs, n) == \A k \in (n + 1)..Len(bs) : bs[k] = 0       \* zero-extension of its low n bytes
FitsS(bs, n) == LET f == IF bs[n] >= 128 THEN 255 ELSE 0 IN \A k \in (n + 1)..Len(bs) : bs[k] = f

(* --------------------------- mnemonic tables ---------------------------- *)
CcNames == << <<"o",0>>, <<"no",1>>, <<"b",2>>, <<"c",2>>, <<"nae",2>>, <<"nb",3>>, <<"nc",3>>, <<"ae",3>>,
              <<"e",4>>, <<"z",4>>, <<"ne",5>>, <<"nz",5>>, <<"be",6>>, <<"na",6>>, <<"a",7>>, <<"nbe",7>>,
              <<"s",8>>, <<"ns",9>>, <<"p",10>>, <<"pe",10>>, <<"np",11>>, <<"po",11>>, <<"l",12>>, <<"nge",12>>,
              <<"ge",13>>, <<"nl",13>>, <<"le",14>>, <<"ng",14>>, <<"g",15>>, <<"nle",15>> >>
\* the jcc names the library has in its table
LibJcc == << <<"ja",7>>, <<"jae",3>>, <<"jb",2>>, <<"je",4>>, <<"jg",15>>, <<"jge",13>>, <<"jl",12>>, <<"jle",14>>,
             <<"jne",5>>, <<"jno",1>>, <<"jnp",11>>, <<"jns",9>>, <<"jo",0>>, <<"jp",10>>, <<"js",8>> >>
Cmovs  == {"cmov" \o c[1] : c \in Rng(CcNames)}
Setccs == {"set" \o c[1] : c \in Rng(CcNames)}
Jccs   == {c[1] : c \in Rng(LibJcc)}
NopK   == {"nop2","nop3","nop4","nop5","nop6","nop7","nop8","nop9","nop10","nop11"}
NoOpd  == {"clc","cpuid","lfence","mfence","sfence","rdpmc","rdtsc","rdtscp","ret","xend","nop"} \cup NopK
Alu    == {"adc","add","and","cmp","or","sbb","sub","xor"}
Shifts == {"sal","sar","shl","shr","ror","rcr"}
Packed16 == {"paddb","paddd","paddq","paddw","pandn","pmulhrsw","pmulhuw","pmulhw","pmullw","pmuludq",
             "por","psubb","psubd","psubq","psubw","pxor"}
VexPacked == {"vpaddb","vpaddw","vpaddd","vpaddq","vpsubb","vpsubw","vpsubd","vpsubq","vpand","vpandn","vpor","vpxor",
            "vpmuldq","vpmulld","vpmulhrsw","vpmulhuw","vpmulhw","vpmullw","vpmuludq"}
VOnly256 == {"vaddpd","vsubpd","vmulpd","vdivpd","vpermd"}
Bmi    == {"bextr","bzhi","sarx","shlx","shrx"}

NameTable ==
     {[mn |-> "cmov" \o c[1], op |-> "cmov", cc |-> c[2]] : c \in Rng(CcNames)}
\cup {[mn |-> "set" \o c[1], op |-> "setcc", cc |-> c[2]] : c \in Rng(CcNames)}
\cup {[mn |-> c[1], op |-> "jcc", cc |-> c[2]] : c \in Rng(LibJcc)}
\cup {[mn |-> m, op |-> "nop", cc |-> 0] : m \in NopK}
\cup {[mn |-> "sal", op |-> "shl", cc |-> 0]}
Aliased == {r.mn : r \in NameTable}
CanonTbl == [m \in Aliased |-> CHOOSE r \in NameTable : r.mn = m]
Canon(mn) == IF mn \in Aliased THEN CanonTbl[mn] ELSE [mn |-> mn, op |-> mn, cc |-> 0]

(* formats the library documents (src/instructions.c rows at the pinned commit, by kind string) *)
LibFormTable == <<
  <<Alu \cup {"mov"}, {"rr","mr","rm","mi","ri"}>>,
  <<{"test"}, {"rr","mr","mi","ri"}>>,
  <<{"adcx","adox","movzx","xchg"} \cup Cmovs, {"rr","rm"}>>,
  <<{"imul"}, {"rri","rmi","rr","rm","r"}>>,
  <<{"lea"}, {"rm"}>>,
  <<{"dec","inc","neg","not"} \cup Setccs, {"r","m"}>>,
  <<{"clflush","prefetchnta","prefetcht0","prefetcht1","prefetcht2"}, {"m"}>>,
  <<{"sal","sar","shl","shr"}, {"mi","ri","mr","rr"}>>,
  <<{"rcr"}, {"mi","ri"}>>, <<{"ror"}, {"ri"}>>,
  <<{"shld"}, {"rri","mri","rrr","mrr"}>>, <<{"shrd"}, {"mri","rri"}>>,
  <<{"pop"}, {"r"}>>, <<{"push"}, {"r","m","i"}>>,
  <<{"call","jmp"}, {"i","r","m"}>>,
  <<Jccs \cup {"jrcxz","xbegin","xabort"}, {"i"}>>,
  <<NoOpd, {""}>>,
  <<Bmi, {"rrr","rmr"}>>, <<{"mulx"}, {"rrr","rrm"}>>, <<{"rorx"}, {"rri","rmi"}>>,
  <<Packed16, {"vm","vv","rm","rr"}>>, <<{"pand"}, {"vv","rm","rr"}>>,
  <<{"pmulld","pmuldq"}, {"vm","vv"}>>,
  <<{"cvtdq2pd","cvtpd2dq","divpd","mulpd","punpcklqdq"}, {"vv"}>>,
  <<{"movntdqa"}, {"vm"}>>, <<{"psrldq"}, {"vi"}>>,
  <<{"movd"}, {"vm","vr","mv","rv"}>>, <<{"movq"}, {"vr","mv","rv","vm","vv"}>>, <<{"movntq"}, {"mr"}>>,
  <<VexPacked, {"yym","yyy","vvm","vvv"}>>, <<VOnly256, {"yym","yyy"}>>,
  <<{"vperm2i128","vperm2f128"}, {"yymi","yyyi"}>>,
  <<{"vmovupd","vmovdqu"}, {"ym","yy","my","vm","vv","mv"}>> >>
Mnemonics == UNION {e[1] : e \in Rng(LibFormTable)}
LibForms(mn) == UNION {e[2] : e \in {x \in Rng(LibFormTable) : mn \in x[1]}}

(* operand-kind tuples the instruction has in x86-64 (DESIGN Appendix F).  "?" tuples are Unconstrained *)
X86KindTable == <<
  <<Alu \cup {"mov"}, {"rr","rm","mr","ri","mi"}, {}>>,
  <<{"test"}, {"rr","mr","ri","mi"}, {"rm"}>>,
  <<{"xchg"}, {"rr","rm","mr"}, {}>>,
  <<{"lea"}, {"rm"}, {}>>,
  <<{"inc","dec","neg","not"}, {"r","m"}, {}>>,
  <<{"imul"}, {"r","m","rr","rm","rri","rmi"}, {"ri"}>>,
  <<Shifts, {"ri","mi","rr","mr"}, {"r","m"}>>,
  <<{"shld","shrd"}, {"rri","mri","rrr","mrr"}, {}>>,
  <<{"push"}, {"r","m","i"}, {}>>, <<{"pop"}, {"r","m"}, {}>>,
  <<{"call","jmp"}, {"i","r","m"}, {}>>,
  <<Jccs \cup {"jrcxz","xbegin","xabort"}, {"i"}, {}>>,
  <<Setccs, {"r","m"}, {}>>,
  <<Cmovs \cup {"movzx","adcx","adox"}, {"rr","rm"}, {}>>,
  <<{"clflush","prefetchnta","prefetcht0","prefetcht1","prefetcht2"}, {"m"}, {}>>,
  <<{"clc","cpuid","lfence","mfence","sfence","rdpmc","rdtsc","rdtscp","xend"}, {""}, {}>>,
  <<{"ret"}, {""}, {"i"}>>,
  <<{"nop"}, {""}, {"r","m"}>>,
  <<Packed16 \cup {"pand"}, {"rr","rm","vv","vm"}, {}>>,
  <<{"pmulld","pmuldq","punpcklqdq","mulpd","divpd","cvtdq2pd","cvtpd2dq"}, {"vv","vm"}, {}>>,
  <<{"movntdqa"}, {"vm"}, {}>>, <<{"psrldq"}, {"vi"}, {"ri"}>>,
  <<{"movd"}, {"vr","vm","rv","mv","rr","rm","mr"}, {}>>,
  <<{"movq"}, {"vv","vm","mv","vr","rv","rr","rm","mr"}, {}>>,
  <<{"movntq"}, {"mr"}, {}>>,
  <<VexPacked \cup {"vaddpd","vsubpd","vmulpd","vdivpd"}, {"vvv","vvm","yyy","yym"}, {}>>,
  <<{"vpermd"}, {"yyy","yym"}, {}>>,
  <<{"vperm2i128","vperm2f128"}, {"yyyi","yymi"}, {}>>,
  <<{"vmovupd","vmovdqu"}, {"vv","vm","mv","yy","ym","my"}, {}>>,
  <<Bmi, {"rrr","rmr"}, {}>>, <<{"mulx"}, {"rrr","rrm"}, {}>>, <<{"rorx"}, {"rri","rmi"}, {}>> >>
X86Kinds(mn)  == UNION {e[2] : e \in {x \in Rng(X86KindTable) : mn \in x[1]}}
X86Maybe(mn)  == UNION {e[3] : e \in {x \in Rng(X86KindTable) : mn \in x[1]}}

KindOf(o) == IF o.k = "r" THEN (IF o.f = "x" THEN "v" ELSE IF o.f = "y" THEN "y" ELSE "r") ELSE o.k
KindStr(opds) == FoldLeft(LAMBDA acc, o : acc \o KindOf(o), "", opds)

\* kind-level classification of an AST (C10): "Supported" | "Invalid" | "Unconstrained"
KindStatus(mn, ks) ==
  IF mn \notin Mnemonics THEN "Invalid"
  ELSE IF mn \in NopK THEN (IF ks = "" THEN "Supported" ELSE "Unconstrained")
  ELSE IF ks \in X86Kinds(mn) THEN (IF ks \in LibForms(mn) THEN "Supported" ELSE "Unconstrained")
  ELSE IF ks \in X86Maybe(mn) THEN "Unconstrained"
  ELSE "Invalid"

(* ------------------------- expected operands ---------------------------- *)
ImmOps8 == {"rol","ror","rcl","rcr","shl","shr","sar","shld","shrd","rorx","psrldq","vperm2i128","vperm2f128","xabort"}
OSizeOf(ast) ==   \* operand size that fixes the immediate width: first register or sized memory operand
  LET o == ast.opds[1] IN IF o.k \in {"r", "m"} THEN o.w ELSE 64
ImmLen(op, ast) == IF op \in ImmOps8 THEN 1 ELSE IF op = "push" THEN 8 ELSE OSizeOf(ast) \div 8

LinOf(m) ==
  LET sc == IF m.s = 0 THEN 1 ELSE m.s
      bs == IF m.b >= 0 THEN {<<m.b, 1>>} ELSE {}
  IN IF m.i < 0 THEN bs
     ELSE IF m.i = m.b THEN {<<m.b, 1 + sc>>}
     ELSE bs \cup {<<m.i, sc>>}

ExpMem(m) == [k |-> "m", w |-> m.w, a |-> m.a, lin |-> LinOf(m), d |-> Disp32(m), rip |-> FALSE]
NormMem(o) == [k |-> "m", w |-> o.w, a |-> o.a, lin |-> o.lin, d |-> o.d, rip |-> o.rip]
NormOp(o)  == IF o.k = "m" THEN NormMem(o) ELSE IF o.k = "r" THEN [k |-> "r", f |-> o.f, w |-> o.w, n |-> o.n, h |-> o.h] ELSE o

ExpOpd(ast, op, j) ==
  LET o == ast.opds[j] IN
  IF o.k = "r" THEN [k |-> "r", f |-> o.f, w |-> o.w, n |-> o.n, h |-> o.h]
  ELSE IF o.k = "m" THEN ExpMem(o)
  ELSE [k |-> "i", v |-> SubSeq(Val64(o), 1, ImmLen(op, ast))]
ExpOps(ast, op) == [j \in 1..Len(ast.opds) |-> ExpOpd(ast, op, j)]

\* representable at the destination width (C03 domain)
Representable(ast) ==
  LET op == Canon(ast.mn).op IN
  \A j \in 1..Len(ast.opds) : ast.opds[j].k = "i" =>
     LET v == Val64(ast.opds[j])  n == ImmLen(op, ast) IN
     IF op \in ImmOps8 THEN FitsZ(v, 1)
     ELSE IF op = "push" THEN FitsS(v, 4)
     ELSE IF op = "mov" /\ ast.opds[1].k = "r" THEN (n = 8 \/ FitsZ(v, n) \/ FitsS(v, n))   \* mov r64, imm64 exists
     ELSE IF n = 8 THEN FitsS(v, 4)                     \* imm32 sign-extended to 64
     ELSE FitsZ(v, n) \/ FitsS(v, n)

(* ---------------------- option-dependent meaning ------------------------ *)
IsMovR64Imm(ast) == ast.mn = "mov" /\ Len(ast.opds) = 2 /\ ast.opds[1].k = "r" /\ ast.opds[1].w = 64 /\ ast.opds[2].k = "i"
Narrowable(im)   == FitsZ(Val64(im), 4)                    \* 0 <= imm <= 0xffffffff
AllDigits(im)    == im.radix = "hex" /\ im.digits = 16
NarrowExpected(im, mov) ==
  IF mov = "STRICT" THEN FALSE
  ELSE IF mov = "NASM" THEN Narrowable(im)
  ELSE Narrowable(im) /\ ~AllDigits(im)                     \* SMART

MemIdx(ast) == IF \E j \in 1..Len(ast.opds) : ast.opds[j].k = "m" THEN CHOOSE j \in 1..Len(ast.opds) : ast.opds[j].k = "m" ELSE 0
IsSpIndex(m) == m.i = 4 /\ m.s = 0 /\ m.b >= 0 /\ m.b # 4  \* [base+rsp], stack pointer unscaled as index
IsNoBase(m)  == m.b < 0 /\ m.i >= 0                        \* [scale*index +- disp]
\* option dimensions allowed to change the bytes of this line (C11)
Sensitive(ast) ==
  LET j == MemIdx(ast) IN
  (IF IsMovR64Imm(ast) THEN {"mov"} ELSE {})
  \cup (IF j > 0 /\ IsSpIndex(ast.opds[j]) THEN {"swap"} ELSE {})
  \cup (IF j > 0 /\ IsNoBase(ast.opds[j]) THEN {"nobase"} ELSE {})

(* ----------------------- the meaning predicate -------------------------- *)
SymOps == {"xchg", "test"}
\* compare one decoded operand with the expectation; for memory under the STRICT literal cases the raw fields decide
MemWhy(m, opts, dm) ==
  IF dm.k # "m" THEN "operand-kind"
  ELSE IF dm.a # m.a THEN "address-size"
  ELSE IF dm.w # m.w THEN "access-width"
  ELSE IF dm.rip THEN "rip-relative"
  ELSE IF IsSpIndex(m) /\ opts.swap = "STRICT"
       THEN (IF dm.raw.base = m.b /\ dm.raw.index = -1 /\ dm.raw.sib /\ dm.d = Disp32(m) THEN "" ELSE "strict-swap-literal")
  ELSE IF IsNoBase(m) /\ opts.nobase = "STRICT"
       THEN (IF dm.raw.base = -1 /\ dm.raw.index = m.i /\ dm.raw.scale = (IF m.s = 0 THEN 1 ELSE m.s) /\ dm.d = Disp32(m)
             THEN "" ELSE "strict-nobase-literal")
  ELSE IF dm.lin # LinOf(m) THEN "address"
  ELSE IF dm.d # Disp32(m) THEN "displacement"
  ELSE ""

OpdWhy(ast, op, opts, j, dop) ==
  LET o == ast.opds[j] IN
  IF o.k = "m" THEN MemWhy(o, opts, dop)
  ELSE IF NormOp(dop) = ExpOpd(ast, op, j) THEN ""
  ELSE IF o.k = "r" THEN (IF dop.k # "r" THEN "operand-kind" ELSE IF dop.w # o.w THEN "operand-width" ELSE "register")
  ELSE IF dop.k # "i" THEN "operand-kind" ELSE "immediate"

RECURSIVE FirstWhy(_, _, _, _, _, _)
FirstWhy(ast, op, opts, dops, perm, j) ==
  IF j > Len(ast.opds) THEN ""
  ELSE LET w == OpdWhy(ast, op, opts, j, dops[perm[j]]) IN
       IF w # "" THEN w ELSE FirstWhy(ast, op, opts, dops, perm, j + 1)

\* relative branches / xbegin: ops = <<Rel>> ; keyword rules of C05
RelWhy(ast, d) ==
  LET im == ast.opds[1]
      r  == d.ops[1]
      v  == Val64(im)
  IN IF r.k # "j" THEN "operand-kind"
     ELSE IF r.v # SubSeq(v, 1, 4) THEN "displacement"
     ELSE IF im.kw = "long" /\ r.s THEN "long-got-rel8"
     ELSE ""

IsRelForm(ast) == Len(ast.opds) = 1 /\ ast.opds[1].k = "i" /\ (ast.mn \in Jccs \cup {"jmp","call","jrcxz","xbegin"})

MovImmWhy(ast, opts, d) ==        \* mov r64, imm  (C03 value + C11 form)
  LET im == ast.opds[2]  dst == ast.opds[1]  v == Val64(im) IN
  IF d.op # "mov" \/ Len(d.ops) # 2 \/ d.ops[1].k # "r" \/ d.ops[2].k # "i" THEN "op"
  ELSE IF d.ops[1].f # "g" \/ d.ops[1].n # dst.n \/ d.ops[1].w \notin {32, 64} THEN "register"
  ELSE IF MovResult(d) # v THEN "immediate"
  ELSE IF NarrowExpected(im, opts.mov) /\ d.ops[1].w # 32 THEN "C11:not-narrowed"
  ELSE IF ~NarrowExpected(im, opts.mov) /\ d.ops[1].w # 64 THEN "C11:narrowed"
  ELSE ""

\* "" when the decoded instruction d is what the line means under opts; otherwise a reason
MatchWhy(ast, opts, d) ==
  LET c  == Canon(ast.mn)
      op == c.op
      n  == Len(ast.opds)
  IN
  IF ast.mn \in NopK \cup {"nop"} THEN (IF IsNop(d) THEN "" ELSE "op")
  ELSE IF IsMovR64Imm(ast) THEN MovImmWhy(ast, opts, d)
  ELSE IF IsRelForm(ast) THEN
       (IF d.op # op \/ d.cc # c.cc THEN "op" ELSE IF Len(d.ops) # 1 THEN "arity" ELSE RelWhy(ast, d))
  ELSE IF op = "xchg" /\ n = 2 /\ ast.opds[1] = ast.opds[2] /\ ast.opds[1].k = "r" /\ ast.opds[1].w \in {16, 64} /\ IsNop(d) THEN ""
  ELSE LET dop == IF n = 1 /\ ast.opds[1].k = "m" /\ ast.opds[1].far /\ op \in {"jmp", "call"} THEN op \o "f" ELSE op IN
  IF d.op # dop THEN "op"
  ELSE IF d.cc # c.cc THEN "cc"
  ELSE IF Len(d.ops) # n THEN "arity"
  ELSE LET id == [j \in 1..n |-> j]
           w1 == FirstWhy(ast, op, opts, d.ops, id, 1)
       IN IF w1 = "" THEN ""
          ELSE IF op \in SymOps /\ n = 2 /\ FirstWhy(ast, op, opts, d.ops, <<2, 1>>, 1) = "" THEN ""
          ELSE w1

OptRec(oi) == [mov |-> <<"STRICT", "NASM", "SMART">>[(oi \div 4) + 1],
               swap |-> IF (oi \div 2) % 2 = 1 THEN "NASM" ELSE "STRICT",
               nobase |-> IF oi % 2 = 1 THEN "NASM" ELSE "STRICT"]
=============================================================================
