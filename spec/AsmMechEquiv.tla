---------------------------- MODULE AsmMechEquiv ----------------------------
(* The range-halving evaluations of AsmMech.tla (RunSeg, SumSeg, BreaksSeg, FitSeg) against their linear definitions      *)
(* (RunFrom, SumDef, RefBreaksDef, RefFitDef): TLC evaluates both on every program of up to five lines with lengths in    *)
(* {0, 1, 2, 5}, every mode, chunk sizes 0..4, start positions 0..5, two capacities, caller- and library-managed buffers. *)
(* Run by bin/setup and bin/selftest (cfg: T = 4, Q = 6).                                                                  *)
EXTENDS AsmMech, TLC
Progs == UNION {[1..n -> {0, 1, 2, 5}] : n \in 0..5}
Cases == Progs \X {"A", "F", "C"} \X (0..4) \X (0..5) \X {T + 3, T + 9} \X BOOLEAN
Same(x) ==
  LET lens == x[1]  m == x[2]  c == x[3]  p == x[4]  cap == x[5]  ext == x[6] IN
  /\ (m = "A" \/ c >= 2) =>
       RunFrom(p, cap, lens, m, c, ext, 1) = Run(p, cap, lens, m, c, ext)
  /\ SumDef(lens, Len(lens)) = Sum(lens, Len(lens))
  /\ RefBreaksDef(lens, c, p) = RefBreaks(lens, c, p)
  /\ c >= 2 => RefFitDef(lens, c, p, 1) = RefFit(lens, c, p, 1)
ASSUME \A x \in Cases : Same(x) \/ (PrintT(<<"DIFFERS", x>>) /\ FALSE)
ASSUME PrintT(<<"EQUIV-CASES", Cardinality(Cases)>>)
VARIABLE dummy
Init == dummy = 0
Next == UNCHANGED dummy
=============================================================================
