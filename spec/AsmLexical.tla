----------------------------- MODULE AsmLexical -----------------------------
(* Capacity model of the tokenizer's fixed-size buffers (DESIGN 3.3, C09).      *)
(*   filter_str[100] (kept characters of a line, last byte for the terminator), *)
(*   opd[4] (operand slots), reg[6] (register name of an operand, cursor j),    *)
(*   sib[6] (index register name of a memory operand, length k).                *)
(* Abstract input: kept = number of characters the filter keeps for the line,   *)
(* nopd = number of (register) operands, rlen = length of the register tokens,  *)
(* xlen = length of the index-register token of a memory operand (0 = none).    *)
(* TLC enumerates the abstract inputs, checks InBounds on the model and writes  *)
(* the inputs; the harness renders each as a concrete line, the hooks report    *)
(* the real cursors, and the judge below compares them with the model           *)
(* (binding) and evaluates idx < capacity on the observation (property).        *)
EXTENDS Integers, Sequences, FiniteSets, TLC, Json, IOUtils, SequencesExt

LINE_CAP == 100   \* FILTERED_STR_LEN / MAX_LINE_LEN
NOPD     == 4     \* NUM_OF_OPD
REG_CAP  == 6     \* MAX_REG_LEN
REG_COPY == 5     \* characters get_reg_str / copy_index_reg copy at most
MinOf(a, b) == IF a < b THEN a ELSE b
MaxOf(S) == CHOOSE x \in S : \A y \in S : y <= x

Inputs == [kept : (0..12) \cup (90..110) \cup {130, 200}, nopd : 0..6, rlen : 1..9, xlen : 0..9]
\* the rendered line is  add<padding> r..,r..,[rax+r..]  : it needs room for its tokens
Base(a) == 3 + (IF a.nopd + a.xlen > 0 THEN 1 ELSE 0) + a.nopd * a.rlen + (IF a.nopd > 0 THEN a.nopd - 1 ELSE 0)
           + (IF a.xlen > 0 THEN a.xlen + 6 + (IF a.nopd > 0 THEN 1 ELSE 0) ELSE 0)
Feasible(a) == a.kept >= Base(a)

\* ---- the model: what the code's cursors do for an abstract input ----
TooLong(a)   == a.kept > LINE_CAP - 1                       \* rejected by the filter, nothing is tokenized
FilterJ(a)   == MinOf(a.kept, LINE_CAP - 1)
NTok(a)      == a.nopd + (IF a.xlen > 0 THEN 1 ELSE 0)      \* the memory operand (if any) comes last
\* a register operand must be the register name and nothing else: a token longer than the REG_COPY characters that are copied
\* ends the tokenization at the first operand
Stops(a)     == a.nopd > 0 /\ a.rlen > REG_COPY
OpdSlot(a)   == IF TooLong(a) \/ NTok(a) = 0 THEN -1 ELSE IF Stops(a) THEN 0 ELSE MinOf(NTok(a), NOPD) - 1
RegsSeen(a)  == ~TooLong(a) /\ a.nopd > 0
MemSeen(a)   == ~TooLong(a) /\ a.xlen > 0 /\ a.nopd < NOPD /\ ~Stops(a)
RegCursor(a) == MaxOf({-1} \cup (IF RegsSeen(a) /\ a.rlen >= 2 THEN {MinOf(a.rlen, REG_COPY) - 1} ELSE {})
                           \cup (IF MemSeen(a) THEN {2} ELSE {}))          \* the base register "rax" of the memory operand
IdxLen(a)    == IF MemSeen(a) THEN MinOf(a.xlen, REG_COPY) ELSE -1
Model(a)     == <<FilterJ(a), IF TooLong(a) THEN 1 ELSE 0, OpdSlot(a), RegCursor(a), IdxLen(a)>>

\* ---- the property on a vector of cursors <<filter j, filter error, operand slot, register cursor, index length>> ----
InBoundsVec(v) == /\ v[1] <= LINE_CAP - 1        \* filter_str[j] stays a terminator
                  /\ v[3] <= NOPD - 1            \* opd[opd_pos]
                  /\ v[4] <= REG_CAP - 2         \* reg[j], reg[5] stays a terminator
                  /\ v[5] <= REG_CAP - 1         \* sib[k], k characters written
ASSUME \A a \in {x \in Inputs : Feasible(x)} : InBoundsVec(Model(a))     \* C09 on the capacity model
Emit == IF "OUT" \in DOMAIN IOEnv THEN ndJsonSerialize(IOEnv.OUT, SetToSeq({[ab |-> a, model |-> Model(a)] : a \in {x \in Inputs : Feasible(x)}})) ELSE TRUE
ASSUME Emit

\* ---- the judge ----
Tr == IF "TRACE" \in DOMAIN IOEnv THEN ndJsonDeserialize(IOEnv.TRACE) ELSE <<>>
VARIABLES l, nbad
RngT(s) == {s[k] : k \in 1..Len(s)}
Why(e) ==
  IF "fault" \in DOMAIN e THEN "C09:fault-" \o e.fault
  ELSE IF \E r \in RngT(e.runs) : r.fault # "none" \/ r.ret \notin {0, 1} \/ r.outside # 0 THEN "C09:fault-or-return-value"
  ELSE IF \E r \in RngT(e.runs) : ~InBoundsVec(r.hk) THEN "C09:cursor-beyond-capacity"
  ELSE IF "model" \in DOMAIN e /\ \E r \in RngT(e.runs) : r.hk # e.model THEN "mech:capacity-model"
  ELSE ""
Init == l = 1 /\ nbad = 0
Next == /\ l <= Len(Tr) /\ l' = l + 1
        /\ LET w == Why(Tr[l]) IN nbad' = IF w = "" THEN nbad ELSE IF PrintT("BAD|" \o Tr[l].id \o "|" \o w \o "|" \o ToString(l) \o "||") THEN nbad + 1 ELSE nbad
Spec == Init /\ [][Next]_<<l, nbad>>
Accepted == TLCGet("stats").diameter - 1 = Len(Tr) /\ PrintT(<<"JUDGED", Len(Tr)>>)
=============================================================================
