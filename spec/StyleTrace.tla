----------------------------- MODULE StyleTrace -----------------------------
(* Monitor for C16: the emitted bytes of a line (or program) must not depend *)
(* on its concrete-syntax style.  An event carries what the real library did *)
(* with the canonical spelling and with every styled variant, under all 12   *)
(* option combinations; the monitor compares outcome by outcome.             *)
(*   event   = [id, prop, ast?, canon: runs, vars: <<[sk, zr, runs, fault?]>>]*)
(*   sk = printable style key, zr = TRUE iff the style rewrites radix/zeros  *)
EXTENDS AsmSyntax, Json, IOUtils
T == ndJsonDeserialize(IOEnv.TRACE)
VARIABLES l, nbad
vars == <<l, nbad>>

OutcomeOf(runs, oi) ==
  LET c == {k \in 1..Len(runs) : oi \in Rng(runs[k].o)} IN
  IF c = {} THEN <<"missing">>
  ELSE LET r == runs[CHOOSE k \in c : TRUE] IN <<r.ret, r.bytes, r.fault, r.outside>>

\* mov r64, imm under SMART: the spelling decides narrowing (documented); judged by C11, exempt here
Exempt(ev, v, oi) == "ast" \in DOMAIN ev /\ IsMovR64Imm(ev.ast) /\ OptRec(oi).mov = "SMART" /\ v.zr

VarBad(ev, v) ==
  IF "fault" \in DOMAIN v THEN {<<"C09:fault-" \o v.fault, -1>>}
  ELSE { <<"style-changes-code", oi>> : oi \in {o \in 0..11 : ~Exempt(ev, v, o) /\ OutcomeOf(v.runs, o) # OutcomeOf(ev.canon, o)} }

BadOf(ev) == UNION { { <<b[1], b[2], ev.vars[k].sk>> : b \in VarBad(ev, ev.vars[k]) } : k \in 1..Len(ev.vars) }
Report(ev) ==
  LET b == BadOf(ev)
      keys == {<<x[1], x[3]>> : x \in b}
  IN \A kk \in keys : LET f == CHOOSE x \in b : x[1] = kk[1] /\ x[3] = kk[2] IN PrintT("BAD|" \o ev.id \o "|" \o f[1] \o "|" \o ToString(f[2]) \o "|" \o f[3] \o "|plain")
Init == l = 1 /\ nbad = 0
Next == /\ l <= Len(T) /\ l' = l + 1
        /\ LET b == BadOf(T[l]) IN nbad' = IF b = {} THEN nbad ELSE IF Report(T[l]) THEN nbad + 1 ELSE nbad
Spec == Init /\ [][Next]_vars
Accepted == TLCGet("stats").diameter - 1 = Len(T) /\ PrintT(<<"JUDGED", Len(T)>>)
=============================================================================
