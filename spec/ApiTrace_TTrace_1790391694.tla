---- MODULE ApiTrace_TTrace_1790391694 ----
EXTENDS Sequences, TLCExt, ApiTrace, Toolbox, Naturals, TLC

_expression ==
    LET ApiTrace_TEExpression == INSTANCE ApiTrace_TEExpression
    IN ApiTrace_TEExpression!expression
----

_trace ==
    LET ApiTrace_TETrace == INSTANCE ApiTrace_TETrace
    IN ApiTrace_TETrace!trace
----

_inv ==
    ~(
        TLCGet("level") = Len(_TETrace)
        /\
        nbad = (0)
        /\
        armed = ("mremap")
        /\
        inst = (<<[alive |-> TRUE, ext |-> FALSE, cap |-> 6020, off |-> 4, fit |-> 16, opt |-> [mov |-> "SMART", swap |-> "NASM", nobase |-> "NASM"]], [alive |-> FALSE, ext |-> FALSE, cap |-> 0, off |-> 0, fit |-> 0, opt |-> [mov |-> "SMART", swap |-> "NASM", nobase |-> "NASM"]], [alive |-> FALSE, ext |-> FALSE, cap |-> 0, off |-> 0, fit |-> 0, opt |-> [mov |-> "SMART", swap |-> "NASM", nobase |-> "NASM"]], [alive |-> FALSE, ext |-> FALSE, cap |-> 0, off |-> 0, fit |-> 0, opt |-> [mov |-> "SMART", swap |-> "NASM", nobase |-> "NASM"]]>>)
        /\
        l = (6)
    )
----

_init ==
    /\ nbad = _TETrace[1].nbad
    /\ l = _TETrace[1].l
    /\ armed = _TETrace[1].armed
    /\ inst = _TETrace[1].inst
----

_next ==
    /\ \E i,j \in DOMAIN _TETrace:
        /\ \/ /\ j = i + 1
              /\ i = TLCGet("level")
        /\ nbad  = _TETrace[i].nbad
        /\ nbad' = _TETrace[j].nbad
        /\ l  = _TETrace[i].l
        /\ l' = _TETrace[j].l
        /\ armed  = _TETrace[i].armed
        /\ armed' = _TETrace[j].armed
        /\ inst  = _TETrace[i].inst
        /\ inst' = _TETrace[j].inst

\* Uncomment the ASSUME below to write the states of the error trace
\* to the given file in Json format. Note that you can pass any tuple
\* to `JsonSerialize`. For example, a sub-sequence of _TETrace.
    \* ASSUME
    \*     LET J == INSTANCE Json
    \*         IN J!JsonSerialize("ApiTrace_TTrace_1790391694.json", _TETrace)

=============================================================================

 Note that you can extract this module `ApiTrace_TEExpression`
  to a dedicated file to reuse `expression` (the module in the 
  dedicated `ApiTrace_TEExpression.tla` file takes precedence 
  over the module `ApiTrace_TEExpression` below).

---- MODULE ApiTrace_TEExpression ----
EXTENDS Sequences, TLCExt, ApiTrace, Toolbox, Naturals, TLC

expression == 
    [
        \* To hide variables of the `ApiTrace` spec from the error trace,
        \* remove the variables below.  The trace will be written in the order
        \* of the fields of this record.
        nbad |-> nbad
        ,l |-> l
        ,armed |-> armed
        ,inst |-> inst
        
        \* Put additional constant-, state-, and action-level expressions here:
        \* ,_stateNumber |-> _TEPosition
        \* ,_nbadUnchanged |-> nbad = nbad'
        
        \* Format the `nbad` variable as Json value.
        \* ,_nbadJson |->
        \*     LET J == INSTANCE Json
        \*     IN J!ToJson(nbad)
        
        \* Lastly, you may build expressions over arbitrary sets of states by
        \* leveraging the _TETrace operator.  For example, this is how to
        \* count the number of times a spec variable changed up to the current
        \* state in the trace.
        \* ,_nbadModCount |->
        \*     LET F[s \in DOMAIN _TETrace] ==
        \*         IF s = 1 THEN 0
        \*         ELSE IF _TETrace[s].nbad # _TETrace[s-1].nbad
        \*             THEN 1 + F[s-1] ELSE F[s-1]
        \*     IN F[_TEPosition - 1]
    ]

=============================================================================



Parsing and semantic processing can take forever if the trace below is long.
 In this case, it is advised to uncomment the module below to deserialize the
 trace from a generated binary file.

\*
\*---- MODULE ApiTrace_TETrace ----
\*EXTENDS IOUtils, ApiTrace, TLC
\*
\*trace == IODeserialize("ApiTrace_TTrace_1790391694.bin", TRUE)
\*
\*=============================================================================
\*

---- MODULE ApiTrace_TETrace ----
EXTENDS ApiTrace, TLC

trace == 
    <<
    ([nbad |-> 0,armed |-> "",inst |-> <<[alive |-> FALSE, ext |-> FALSE, cap |-> 0, off |-> 0, fit |-> 0, opt |-> [mov |-> "SMART", swap |-> "NASM", nobase |-> "NASM"]], [alive |-> FALSE, ext |-> FALSE, cap |-> 0, off |-> 0, fit |-> 0, opt |-> [mov |-> "SMART", swap |-> "NASM", nobase |-> "NASM"]], [alive |-> FALSE, ext |-> FALSE, cap |-> 0, off |-> 0, fit |-> 0, opt |-> [mov |-> "SMART", swap |-> "NASM", nobase |-> "NASM"]], [alive |-> FALSE, ext |-> FALSE, cap |-> 0, off |-> 0, fit |-> 0, opt |-> [mov |-> "SMART", swap |-> "NASM", nobase |-> "NASM"]]>>,l |-> 2]),
    ([nbad |-> 0,armed |-> "",inst |-> <<[alive |-> TRUE, ext |-> FALSE, cap |-> 6020, off |-> 0, fit |-> 0, opt |-> [mov |-> "SMART", swap |-> "NASM", nobase |-> "NASM"]], [alive |-> FALSE, ext |-> FALSE, cap |-> 0, off |-> 0, fit |-> 0, opt |-> [mov |-> "SMART", swap |-> "NASM", nobase |-> "NASM"]], [alive |-> FALSE, ext |-> FALSE, cap |-> 0, off |-> 0, fit |-> 0, opt |-> [mov |-> "SMART", swap |-> "NASM", nobase |-> "NASM"]], [alive |-> FALSE, ext |-> FALSE, cap |-> 0, off |-> 0, fit |-> 0, opt |-> [mov |-> "SMART", swap |-> "NASM", nobase |-> "NASM"]]>>,l |-> 3]),
    ([nbad |-> 0,armed |-> "",inst |-> <<[alive |-> TRUE, ext |-> FALSE, cap |-> 6020, off |-> 4, fit |-> 0, opt |-> [mov |-> "SMART", swap |-> "NASM", nobase |-> "NASM"]], [alive |-> FALSE, ext |-> FALSE, cap |-> 0, off |-> 0, fit |-> 0, opt |-> [mov |-> "SMART", swap |-> "NASM", nobase |-> "NASM"]], [alive |-> FALSE, ext |-> FALSE, cap |-> 0, off |-> 0, fit |-> 0, opt |-> [mov |-> "SMART", swap |-> "NASM", nobase |-> "NASM"]], [alive |-> FALSE, ext |-> FALSE, cap |-> 0, off |-> 0, fit |-> 0, opt |-> [mov |-> "SMART", swap |-> "NASM", nobase |-> "NASM"]]>>,l |-> 4]),
    ([nbad |-> 0,armed |-> "",inst |-> <<[alive |-> TRUE, ext |-> FALSE, cap |-> 6020, off |-> 4, fit |-> 16, opt |-> [mov |-> "SMART", swap |-> "NASM", nobase |-> "NASM"]], [alive |-> FALSE, ext |-> FALSE, cap |-> 0, off |-> 0, fit |-> 0, opt |-> [mov |-> "SMART", swap |-> "NASM", nobase |-> "NASM"]], [alive |-> FALSE, ext |-> FALSE, cap |-> 0, off |-> 0, fit |-> 0, opt |-> [mov |-> "SMART", swap |-> "NASM", nobase |-> "NASM"]], [alive |-> FALSE, ext |-> FALSE, cap |-> 0, off |-> 0, fit |-> 0, opt |-> [mov |-> "SMART", swap |-> "NASM", nobase |-> "NASM"]]>>,l |-> 5]),
    ([nbad |-> 0,armed |-> "mremap",inst |-> <<[alive |-> TRUE, ext |-> FALSE, cap |-> 6020, off |-> 4, fit |-> 16, opt |-> [mov |-> "SMART", swap |-> "NASM", nobase |-> "NASM"]], [alive |-> FALSE, ext |-> FALSE, cap |-> 0, off |-> 0, fit |-> 0, opt |-> [mov |-> "SMART", swap |-> "NASM", nobase |-> "NASM"]], [alive |-> FALSE, ext |-> FALSE, cap |-> 0, off |-> 0, fit |-> 0, opt |-> [mov |-> "SMART", swap |-> "NASM", nobase |-> "NASM"]], [alive |-> FALSE, ext |-> FALSE, cap |-> 0, off |-> 0, fit |-> 0, opt |-> [mov |-> "SMART", swap |-> "NASM", nobase |-> "NASM"]]>>,l |-> 6])
    >>
----


=============================================================================

---- CONFIG ApiTrace_TTrace_1790391694 ----
CONSTANTS
    T = 20
    Q = 6000

INVARIANT
    _inv

CHECK_DEADLOCK
    \* CHECK_DEADLOCK off because of PROPERTY or INVARIANT above.
    FALSE

INIT
    _init

NEXT
    _next

CONSTANT
    _TETrace <- _trace

ALIAS
    _expression
=============================================================================
\* Generated on Sat Sep 26 03:01:35 UTC 2026