------------------------------- MODULE AsmCli -------------------------------
(* CLI layer (DESIGN 5 C20): asmline's flag vector, the option state and the   *)
(* library call sequence it stands for, and the judge for recorded runs:       *)
(* binary outputs = the library's bytes, -p = the same bytes in hex (chunk     *)
(* rows with -c), -b = the library's count, -r = the value the code returns,   *)
(* stdin = FILE, exit status 0 iff assembly and the requested output succeeded.*)
EXTENDS AsmMech, Json, IOUtils, TLC, SequencesExt

\* a flag vector (out = "olong": -o with a name of 150 characters); long mode flags are not combined with short ones nor with conflicting long ones (their order of application
\* is undocumented); two short flags (-n -t -s) are: each calls asm_set_all when it is met, so the later one wins
FlagVectors ==
  { f \in [ mov : {"", "nasm", "strict", "smart"}, sib : {"", "nasm", "strict"}, swap : {"", "nasm", "strict"},
            nobase : {"", "nasm", "strict"}, short : {"", "n", "t", "s"}, short2 : {"", "n", "t", "s"},
            p : BOOLEAN, out : {"", "P", "o", "olong", "Pbad"}, pre : {"none", "long", "short"}, c : {0, 2, 5, 8, 16, 100}, b : {0, 3, 8, 17}, r : BOOLEAN, src : {"stdin", "file"},
            spell : {"short", "long", "long="} ] :      \* -p -P -c -b -r -o -n -t -s or their long spellings (--print --printfile X / --printfile=X ...)
      /\ (f.pre # "none" => f.out \in {"P", "o", "olong"})        \* pre: the output file exists already and is longer / shorter than the new code
      /\ (f.short # "" => f.mov = "" /\ f.sib = "" /\ f.swap = "" /\ f.nobase = "")
      /\ (f.short2 # "" => f.short # "")                 \* two short mode flags: applied in command-line order, the last one wins per dimension
      /\ (f.sib # "" => f.swap = "" /\ f.nobase = "") }

Up(v) == IF v = "nasm" THEN "NASM" ELSE IF v = "strict" THEN "STRICT" ELSE "SMART"
\* documented meaning of the mode flags (usage text): -n = --nasm-mov-imm --nasm-sib, -t = --strict-mov-imm --strict-sib,
\* -s = smart mov-imm; --*-sib = both SIB options
OptOf(f) ==
  LET o0 == DefaultOpt
      sh(o, x) == IF x = "n" THEN SetAll(o, "NASM") ELSE IF x = "t" THEN SetAll(o, "STRICT") ELSE IF x = "s" THEN SetAll(o, "SMART") ELSE o
      o1 == sh(sh(o0, f.short), f.short2)
      o2 == IF f.mov # "" THEN SetMov(o1, Up(f.mov)) ELSE o1
      o3 == IF f.sib # "" THEN SetSib(o2, Up(f.sib)) ELSE o2
      o4 == IF f.swap # "" THEN SetSwap(o3, Up(f.swap)) ELSE o3
  IN IF f.nobase # "" THEN SetNoBase(o4, Up(f.nobase)) ELSE o4

(* --------------------------- emission of the flag space ------------------- *)
Emit == IF "OUT" \in DOMAIN IOEnv THEN ndJsonSerialize(IOEnv.OUT, SetToSeq({[f |-> f, opt |-> OptOf(f)] : f \in FlagVectors})) ELSE TRUE
ASSUME Emit

(* ------------------------------- the judge -------------------------------- *)
\* event = [id, f (flag vector), prog ok?, exit, rows (hex rows printed), count (-1 = none), value (<<>> = none),
\*          file (bytes written, <<-1>> = no file), lib: [ret, bytes, dest, rax]]
Tr == IF "TRACE" \in DOMAIN IOEnv THEN ndJsonDeserialize(IOEnv.TRACE) ELSE <<>>
RECURSIVE Flat(_, _)
Flat(rows, j) == IF j > Len(rows) THEN <<>> ELSE rows[j] \o Flat(rows, j + 1)
Why(e) ==
  LET f == e.f  okasm == e.lib.ret = 0
      wantout == f.out # ""
      outok == f.out \in {"", "P", "o", "olong"}
  IN IF okasm /\ outok /\ e.exit # 0 THEN "exit-nonzero-although-everything-succeeded"
     ELSE IF (~okasm \/ ~outok) /\ e.exit = 0 THEN "exit-zero-although-something-failed"
     ELSE IF ~okasm THEN ""
     ELSE IF f.out \in {"P", "o", "olong"} /\ e.file # e.lib.bytes THEN "binary-output-differs-from-library"
     ELSE IF f.p /\ Flat(e.rows, 1) # e.lib.bytes THEN "printed-hex-differs-from-library"
     ELSE IF f.p /\ f.c >= 2 /\ f.b = 0 /\ \E j \in 1..(Len(e.rows) - 1) : Len(e.rows[j]) # f.c THEN "chunk-rows"
     ELSE IF f.b >= 2 /\ e.count # e.lib.dest THEN "count-differs-from-library"
     ELSE IF f.b = 0 /\ e.count # -1 THEN "count-printed-without-b"
     ELSE IF f.r /\ e.value # e.lib.rax THEN "returned-value"
     ELSE ""
VARIABLES l, nbad
Init == l = 1 /\ nbad = 0
Next == /\ l <= Len(Tr) /\ l' = l + 1
        /\ LET w == Why(Tr[l]) IN
           nbad' = IF w = "" THEN nbad ELSE IF PrintT("BAD|" \o Tr[l].id \o "|" \o w \o "|" \o ToString(l) \o "|" \o Tr[l].f.src \o "|") THEN nbad + 1 ELSE nbad
Spec == Init /\ [][Next]_<<l, nbad>>
Accepted == TLCGet("stats").diameter - 1 = Len(Tr) /\ PrintT(<<"JUDGED", Len(Tr)>>)
=============================================================================
