SPECIFICATION Spec
CONSTANTS
 NT = 2
 ROUNDS = 2
VIEW View
INVARIANT LookupSeesFinal
