------------------------------- MODULE X86 -------------------------------
(* Architecture layer (DESIGN 3.1): the x86-64 *decode relation* for the    *)
(* instruction subset AssemblyLine documents, written from the Intel SDM    *)
(* opcode tables (Appendix C of DESIGN.md), not from src/instructions.c.    *)
(* Pure operators only; machine values wider than a byte are little-endian  *)
(* byte sequences because TLC integers are 32-bit.                          *)
EXTENDS Integers, Sequences, FiniteSets, TLC

Bit(x, k)      == (x \div (2^k)) % 2
Fld(x, lo, n)  == (x \div (2^lo)) % (2^n)
Sub(bs, i, n)  == SubSeq(bs, i, i + n - 1)
SExt(bs, n)    == \* sign-extend little-endian byte sequence bs to n bytes
  LET f == IF bs[Len(bs)] >= 128 THEN 255 ELSE 0
  IN bs \o [k \in 1..(n - Len(bs)) |-> f]
ZExt(bs, n)    == bs \o [k \in 1..(n - Len(bs)) |-> 0]
Trunc(bs, n)   == SubSeq(bs, 1, n)

ALU  == <<"add","or","adc","sbb","and","sub","xor","cmp">>
SHF  == <<"rol","ror","rcl","rcr","shl","shr","shl","sar">>

(* ---------------------------------------------------------------------- *)
(* Form table.  enc: operand-encoding template                            *)
(*   "MR" r/m,reg  "RM" reg,r/m  "M" r/m only  "MI" r/m,imm  "RMI"        *)
(*   "O" +r        "OI" +r,imm   "AI" acc,imm  "I" imm  "N" none "D" rel  *)
(*   "MRI" r/m,reg,imm8  "MRC" r/m,reg,cl  "MC" r/m,cl  "M1" r/m,1         *)
(* sz: "b" byte, "v" 16/32/64, "q" 64 (default 64, 66->16), "d64"          *)
(* im: 0 none, 1 imm8, 4 immz (16/32), 8 immv(16/32/64), -1 imm8 sign-ext  *)
(* ---------------------------------------------------------------------- *)
F(op, cc, pp, map, opc, ext, enc, sz, im, x) ==
  [op |-> op, cc |-> cc, pp |-> pp, map |-> map, opc |-> opc, ext |-> ext,
   enc |-> enc, sz |-> sz, im |-> im, x |-> x, b3 |-> -1, rf |-> "-", mf |-> "-", mw |-> 0]
F3(op, map, opc, enc, sz, im, b3) ==
  [op |-> op, cc |-> 0, pp |-> "-", map |-> map, opc |-> opc, ext |-> -1,
   enc |-> enc, sz |-> sz, im |-> im, x |-> "", b3 |-> b3, rf |-> "-", mf |-> "-", mw |-> 0]

AluForms == UNION {
  { F(ALU[k+1], 0, "-", 1, 8*k + 0, -1, "MR", "b", 0, ""),
    F(ALU[k+1], 0, "-", 1, 8*k + 1, -1, "MR", "v", 0, ""),
    F(ALU[k+1], 0, "-", 1, 8*k + 2, -1, "RM", "b", 0, ""),
    F(ALU[k+1], 0, "-", 1, 8*k + 3, -1, "RM", "v", 0, ""),
    F(ALU[k+1], 0, "-", 1, 8*k + 4, -1, "AI", "b", 1, ""),
    F(ALU[k+1], 0, "-", 1, 8*k + 5, -1, "AI", "v", 4, ""),
    F(ALU[k+1], 0, "-", 1, 128, k, "MI", "b", 1, ""),
    F(ALU[k+1], 0, "-", 1, 129, k, "MI", "v", 4, ""),
    F(ALU[k+1], 0, "-", 1, 131, k, "MI", "v", -1, "") } : k \in 0..7 }

ShiftForms == UNION {
  { F(SHF[k+1], 0, "-", 1, 192, k, "MI", "b", 1, "u8"),
    F(SHF[k+1], 0, "-", 1, 193, k, "MI", "v", 1, "u8"),
    F(SHF[k+1], 0, "-", 1, 208, k, "M1", "b", 0, ""),
    F(SHF[k+1], 0, "-", 1, 209, k, "M1", "v", 0, ""),
    F(SHF[k+1], 0, "-", 1, 210, k, "MC", "b", 0, ""),
    F(SHF[k+1], 0, "-", 1, 211, k, "MC", "v", 0, "") } : k \in 0..7 }

CcForms == UNION {
  { F("jcc",  c, "-", 1, 112 + c, -1, "D", "b", 0, ""),
    F("jcc",  c, "-", 2, 128 + c, -1, "D", "v", 0, ""),
    F("setcc", c, "-", 2, 144 + c, -1, "M", "b", 0, "anyext"),
    F("cmov", c, "-", 2, 64 + c, -1, "RM", "v", 0, "") } : c \in 0..15 }

MiscForms == {
  F("test", 0, "-", 1, 132, -1, "MR", "b", 0, ""), F("test", 0, "-", 1, 133, -1, "MR", "v", 0, ""),
  F("test", 0, "-", 1, 168, -1, "AI", "b", 1, ""), F("test", 0, "-", 1, 169, -1, "AI", "v", 4, ""),
  F("test", 0, "-", 1, 246, 0, "MI", "b", 1, ""),  F("test", 0, "-", 1, 247, 0, "MI", "v", 4, ""),
  F("test", 0, "-", 1, 246, 1, "MI", "b", 1, ""),  F("test", 0, "-", 1, 247, 1, "MI", "v", 4, ""),
  F("xchg", 0, "-", 1, 134, -1, "MR", "b", 0, ""), F("xchg", 0, "-", 1, 135, -1, "MR", "v", 0, ""),
  F("xchg", 0, "-", 1, 144, -1, "OA", "v", 0, ""),
  F("mov", 0, "-", 1, 136, -1, "MR", "b", 0, ""),  F("mov", 0, "-", 1, 137, -1, "MR", "v", 0, ""),
  F("mov", 0, "-", 1, 138, -1, "RM", "b", 0, ""),  F("mov", 0, "-", 1, 139, -1, "RM", "v", 0, ""),
  F("mov", 0, "-", 1, 176, -1, "OI", "b", 1, ""),  F("mov", 0, "-", 1, 184, -1, "OI", "v", 8, ""),
  F("mov", 0, "-", 1, 198, 0, "MI", "b", 1, ""),   F("mov", 0, "-", 1, 199, 0, "MI", "v", 4, ""),
  F("lea", 0, "-", 1, 141, -1, "RM", "v", 0, "lea"),
  F("inc", 0, "-", 1, 254, 0, "M", "b", 0, ""),    F("inc", 0, "-", 1, 255, 0, "M", "v", 0, ""),
  F("dec", 0, "-", 1, 254, 1, "M", "b", 0, ""),    F("dec", 0, "-", 1, 255, 1, "M", "v", 0, ""),
  F("not", 0, "-", 1, 246, 2, "M", "b", 0, ""),    F("not", 0, "-", 1, 247, 2, "M", "v", 0, ""),
  F("neg", 0, "-", 1, 246, 3, "M", "b", 0, ""),    F("neg", 0, "-", 1, 247, 3, "M", "v", 0, ""),
  F("imul", 0, "-", 1, 246, 5, "M", "b", 0, ""),   F("imul", 0, "-", 1, 247, 5, "M", "v", 0, ""),
  F("imul", 0, "-", 2, 175, -1, "RM", "v", 0, ""),
  F("imul", 0, "-", 1, 107, -1, "RMI", "v", -1, ""), F("imul", 0, "-", 1, 105, -1, "RMI", "v", 4, ""),
  F("shld", 0, "-", 2, 164, -1, "MRI", "v", 1, "u8"), F("shld", 0, "-", 2, 165, -1, "MRC", "v", 0, ""),
  F("shrd", 0, "-", 2, 172, -1, "MRI", "v", 1, "u8"), F("shrd", 0, "-", 2, 173, -1, "MRC", "v", 0, ""),
  F("push", 0, "-", 1, 80, -1, "O", "q", 0, ""),   F("pop", 0, "-", 1, 88, -1, "O", "q", 0, ""),
  F("push", 0, "-", 1, 255, 6, "M", "q", 0, ""),   F("pop", 0, "-", 1, 143, 0, "M", "q", 0, ""),
  F("push", 0, "-", 1, 106, -1, "I", "q", -1, ""), F("push", 0, "-", 1, 104, -1, "I", "q", 4, ""),
  F("call", 0, "-", 1, 232, -1, "D", "v", 0, ""),  F("call", 0, "-", 1, 255, 2, "M", "q", 0, "nearq"),
  F("callf", 0, "-", 1, 255, 3, "M", "v", 0, "far"),
  F("jmp", 0, "-", 1, 235, -1, "D", "b", 0, ""),   F("jmp", 0, "-", 1, 233, -1, "D", "v", 0, ""),
  F("jmp", 0, "-", 1, 255, 4, "M", "q", 0, "nearq"), F("jmpf", 0, "-", 1, 255, 5, "M", "v", 0, "far"),
  F("jrcxz", 0, "-", 1, 227, -1, "D", "b", 0, ""),
  F("movzx", 0, "-", 2, 182, -1, "RM", "v", 0, "srcb"), F("movzx", 0, "-", 2, 183, -1, "RM", "v", 0, "srcw"),
  F("adcx", 0, "66", 3, 246, -1, "RM", "y", 0, ""), F("adox", 0, "F3", 3, 246, -1, "RM", "y", 0, ""),
  F("clc", 0, "-", 1, 248, -1, "N", "-", 0, ""),   F("ret", 0, "-", 1, 195, -1, "N", "-", 0, ""),
  F("cpuid", 0, "-", 2, 162, -1, "N", "-", 0, ""), F("rdpmc", 0, "-", 2, 51, -1, "N", "-", 0, ""),
  F("rdtsc", 0, "-", 2, 49, -1, "N", "-", 0, ""),
  F3("rdtscp", 2, 1, "N3", "-", 0, 249), F3("xend", 2, 1, "N3", "-", 0, 213),
  F3("lfence", 2, 174, "N3", "-", 0, 232), F3("mfence", 2, 174, "N3", "-", 0, 240),
  F3("sfence", 2, 174, "N3", "-", 0, 248),
  F3("xabort", 1, 198, "N3I", "-", 1, 248), F3("xbegin", 1, 199, "N3D", "v", 0, 248),
  F("clflush", 0, "-", 2, 174, 7, "M", "b", 0, "memonly"),
  F("prefetchnta", 0, "-", 2, 24, 0, "M", "b", 0, "memonly"), F("prefetcht0", 0, "-", 2, 24, 1, "M", "b", 0, "memonly"),
  F("prefetcht1", 0, "-", 2, 24, 2, "M", "b", 0, "memonly"),  F("prefetcht2", 0, "-", 2, 24, 3, "M", "b", 0, "memonly"),
  F("nop", 0, "-", 1, 144, -1, "NOP1", "-", 0, ""), F("nop", 0, "-", 2, 31, 0, "M", "v", 0, "nopm") }

(* MMX / SSE forms: pp "NP" = MMX registers, "66"/"F2"/"F3" = XMM           *)
(* enc "RM" reg,r/m ; "MR" r/m,reg ; x: register files of reg and r/m       *)
V(op, pp, map, opc, ext, enc, rf, mf, mw, im) ==
  [op |-> op, cc |-> 0, pp |-> pp, map |-> map, opc |-> opc, ext |-> ext, enc |-> enc,
   sz |-> "s", im |-> im, x |-> "", b3 |-> -1, rf |-> rf, mf |-> mf, mw |-> mw]

PackedOps == << <<"paddb",252>>, <<"paddw",253>>, <<"paddd",254>>, <<"paddq",212>>,
                <<"psubb",248>>, <<"psubw",249>>, <<"psubd",250>>, <<"psubq",251>>,
                <<"pand",219>>, <<"pandn",223>>, <<"por",235>>, <<"pxor",239>>,
                <<"pmullw",213>>, <<"pmulhw",229>>, <<"pmulhuw",228>>, <<"pmuludq",244>> >>
SseForms ==
  UNION { { V(PackedOps[i][1], "NP", 2, PackedOps[i][2], -1, "RM", "m", "m", 64, 0),
            V(PackedOps[i][1], "66", 2, PackedOps[i][2], -1, "RM", "x", "x", 128, 0) } : i \in 1..Len(PackedOps) }
  \cup {
  V("pmulhrsw", "NP", 3, 11, -1, "RM", "m", "m", 64, 0), V("pmulhrsw", "66", 3, 11, -1, "RM", "x", "x", 128, 0),
  V("pmulld", "66", 3, 64, -1, "RM", "x", "x", 128, 0),  V("pmuldq", "66", 3, 40, -1, "RM", "x", "x", 128, 0),
  V("movntdqa", "66", 3, 42, -1, "RM", "x", "M", 128, 0),
  V("punpcklqdq", "66", 2, 108, -1, "RM", "x", "x", 128, 0),
  V("mulpd", "66", 2, 89, -1, "RM", "x", "x", 128, 0),   V("divpd", "66", 2, 94, -1, "RM", "x", "x", 128, 0),
  V("cvtdq2pd", "F3", 2, 230, -1, "RM", "x", "x", 64, 0), V("cvtpd2dq", "F2", 2, 230, -1, "RM", "x", "x", 128, 0),
  V("psrldq", "66", 2, 115, 3, "MI", "x", "R", 128, 1),
  V("movd", "66", 2, 110, -1, "RM", "x", "g", 32, 0),    V("movd", "66", 2, 126, -1, "MR", "x", "g", 32, 0),
  V("movd", "NP", 2, 110, -1, "RM", "m", "g", 32, 0),    V("movd", "NP", 2, 126, -1, "MR", "m", "g", 32, 0),
  V("movq", "F3", 2, 126, -1, "RM", "x", "x", 64, 0),    V("movq", "66", 2, 214, -1, "MR", "x", "x", 64, 0),
  V("movq", "NP", 2, 111, -1, "RM", "m", "m", 64, 0),    V("movq", "NP", 2, 127, -1, "MR", "m", "m", 64, 0),
  V("movntq", "NP", 2, 231, -1, "MR", "m", "M", 64, 0) }

(* VEX forms: vv = role of vvvv: "nds" (second operand), "ndd" (first), "rmv" (third), "none" *)
X(op, pp, map, opc, enc, vv, L, W, rf, mf, im) ==
  [op |-> op, cc |-> 0, pp |-> pp, map |-> map, opc |-> opc, ext |-> -1, enc |-> enc, sz |-> "vex",
   im |-> im, x |-> [vv |-> vv, L |-> L, W |-> W, rf |-> rf, mf |-> mf]]
VPacked == << <<"vaddpd",88,"p">>, <<"vsubpd",92,"p">>, <<"vmulpd",89,"p">>, <<"vdivpd",94,"p">>,
              <<"vpaddb",252,"i">>, <<"vpaddw",253,"i">>, <<"vpaddd",254,"i">>, <<"vpaddq",212,"i">>,
              <<"vpsubb",248,"i">>, <<"vpsubw",249,"i">>, <<"vpsubd",250,"i">>, <<"vpsubq",251,"i">>,
              <<"vpand",219,"i">>, <<"vpandn",223,"i">>, <<"vpor",235,"i">>, <<"vpxor",239,"i">>,
              <<"vpmullw",213,"i">>, <<"vpmulhw",229,"i">>, <<"vpmulhuw",228,"i">>, <<"vpmuludq",244,"i">> >>
VexForms ==
  { X(VPacked[i][1], "66", 2, VPacked[i][2], "RVM", "nds", -1, -1, "v", "v", 0) : i \in 1..Len(VPacked) }
  \cup {
  X("vpmulld", "66", 3, 64, "RVM", "nds", -1, -1, "v", "v", 0),
  X("vpmuldq", "66", 3, 40, "RVM", "nds", -1, -1, "v", "v", 0),
  X("vpmulhrsw", "66", 3, 11, "RVM", "nds", -1, -1, "v", "v", 0),
  X("vpermd", "66", 3, 54, "RVM", "nds", 1, 0, "v", "v", 0),
  X("vperm2i128", "66", 4, 70, "RVM", "nds", 1, 0, "v", "v", 1),
  X("vperm2f128", "66", 4, 6, "RVM", "nds", 1, 0, "v", "v", 1),
  X("vmovupd", "66", 2, 16, "RM", "none", -1, -1, "v", "v", 0), X("vmovupd", "66", 2, 17, "MR", "none", -1, -1, "v", "v", 0),
  X("vmovdqu", "F3", 2, 111, "RM", "none", -1, -1, "v", "v", 0), X("vmovdqu", "F3", 2, 127, "MR", "none", -1, -1, "v", "v", 0),
  X("bzhi", "NP", 3, 245, "RMV", "rmv", 0, -2, "g", "g", 0),  X("bextr", "NP", 3, 247, "RMV", "rmv", 0, -2, "g", "g", 0),
  X("sarx", "F3", 3, 247, "RMV", "rmv", 0, -2, "g", "g", 0),  X("shlx", "66", 3, 247, "RMV", "rmv", 0, -2, "g", "g", 0),
  X("shrx", "F2", 3, 247, "RMV", "rmv", 0, -2, "g", "g", 0),  X("mulx", "F2", 3, 246, "RVM", "nds", 0, -2, "g", "g", 0),
  X("rorx", "F2", 4, 240, "RM", "none", 0, -2, "g", "g", 1) }

LegacyForms == AluForms \cup ShiftForms \cup CcForms \cup MiscForms \cup SseForms
\* index: key = map*256 + opc  (for +r forms every low-3-bit variant is registered)
PlusR(f) == f.enc \in {"O", "OI", "OA"}
KeysOf(f) == IF PlusR(f) THEN {f.map * 256 + f.opc + r : r \in 0..7} ELSE {f.map * 256 + f.opc}
LegacyAt == [k \in 256..1279 |-> {f \in LegacyForms : k \in KeysOf(f)}]
VexAt    == [k \in 512..1279 |-> {f \in VexForms : k = f.map * 256 + f.opc}]

(* ---------------------------------------------------------------------- *)
(* Prefix scanning                                                        *)
(* ---------------------------------------------------------------------- *)
RECURSIVE Legacy(_, _, _)
Legacy(bs, i, acc) ==   \* acc = [p66, p67, pF2, pF3, last] ; stops at first non-legacy-prefix byte
  IF i > Len(bs) THEN [acc EXCEPT !.i = i]
  ELSE IF bs[i] = 102 THEN Legacy(bs, i + 1, [acc EXCEPT !.p66 = TRUE])
  ELSE IF bs[i] = 103 THEN Legacy(bs, i + 1, [acc EXCEPT !.p67 = TRUE])
  ELSE IF bs[i] = 242 THEN Legacy(bs, i + 1, [acc EXCEPT !.rep = "F2"])
  ELSE IF bs[i] = 243 THEN Legacy(bs, i + 1, [acc EXCEPT !.rep = "F3"])
  ELSE [acc EXCEPT !.i = i]

RegRec(file, w, n, h) == [k |-> "r", f |-> file, w |-> w, n |-> n, h |-> h]
\* general register in a ModRM/opcode field: 8-bit numbering depends on REX presence
GReg(w, n, hasrex) ==
  IF w = 8 /\ ~hasrex /\ n \in 4..7 THEN RegRec("g", 8, n, TRUE) ELSE RegRec("g", w, n, FALSE)

(* ModRM + SIB + displacement at position i.  c = [r, x, b, hasrex, p67]   *)
ModRM(bs, i, c) ==
  IF Len(bs) < i THEN [ok |-> FALSE] ELSE
  LET m   == bs[i]
      mod == Fld(m, 6, 2)
      reg == Fld(m, 3, 3)
      rm  == Fld(m, 0, 3)
  IN IF mod = 3 THEN [ok |-> TRUE, mod |-> 3, reg3 |-> reg, reg |-> reg + (8 * c.r), isreg |-> TRUE,
                      rmn |-> rm + (8 * c.b), next |-> i + 1]
     ELSE
     LET hassib == rm = 4
         sibok  == ~hassib \/ Len(bs) >= i + 1
         sib    == IF hassib /\ sibok THEN bs[i + 1] ELSE 0
         scale  == 2^Fld(sib, 6, 2)
         idx    == Fld(sib, 3, 3) + (8 * c.x)
         bse    == IF hassib THEN Fld(sib, 0, 3) ELSE rm
         nobase == mod = 0 /\ bse = 5
         rip    == nobase /\ ~hassib
         j      == IF hassib THEN i + 2 ELSE i + 1
         dlen   == IF mod = 1 THEN 1 ELSE IF mod = 2 \/ nobase THEN 4 ELSE 0
         dok    == Len(bs) >= j + dlen - 1
         disp   == IF ~dok \/ dlen = 0 THEN <<0, 0, 0, 0>> ELSE SExt(Sub(bs, j, dlen), 4)
         b      == bse + (8 * c.b)
         hasidx == hassib /\ idx # 4
         lin    == IF nobase
                   THEN (IF hasidx THEN {<<idx, scale>>} ELSE {})
                   ELSE IF hasidx
                        THEN (IF idx = b THEN {<<b, scale + 1>>} ELSE {<<b, 1>>, <<idx, scale>>})
                        ELSE {<<b, 1>>}
     IN IF ~sibok \/ ~dok THEN [ok |-> FALSE]
        ELSE [ok |-> TRUE, mod |-> mod, reg3 |-> reg, reg |-> reg + (8 * c.r), isreg |-> FALSE,
              mem |-> [k |-> "m", w |-> 0, a |-> IF c.p67 THEN 32 ELSE 64, lin |-> lin, d |-> disp, rip |-> rip,
                       raw |-> [base |-> IF nobase THEN -1 ELSE b, index |-> IF hasidx THEN idx ELSE -1,
                                scale |-> IF hasidx THEN scale ELSE 0, sib |-> hassib, dlen |-> dlen]],
              next |-> j + dlen]

MemW(mem, w) == [mem EXCEPT !.w = w]
Imm(bs) == [k |-> "i", v |-> bs]
Rel(bs, short) == [k |-> "j", v |-> bs, s |-> short]
Ins(op, cc, ops, len) == [ok |-> TRUE, op |-> op, cc |-> cc, ops |-> ops, len |-> len]
Bad == [ok |-> FALSE]

(* operand size of a legacy integer form *)
OSize(f, w, p66) ==
  IF f.sz = "b" THEN 8
  ELSE IF f.sz = "v" THEN (IF w = 1 THEN 64 ELSE IF p66 THEN 16 ELSE 32)
  ELSE IF f.sz = "y" THEN (IF w = 1 THEN 64 ELSE 32)
  ELSE IF f.sz = "q" THEN (IF p66 THEN 16 ELSE 64)
  ELSE 0

(* immediate: returns [ok, v (extended to operand size), next] *)
GetImm(bs, i, im, osz) ==
  LET n == IF im \in {1, -1} THEN 1
           ELSE IF im = 4 THEN (IF osz = 16 THEN 2 ELSE 4)
           ELSE IF im = 8 THEN osz \div 8 ELSE 0
      tgt == IF osz = 0 THEN n ELSE osz \div 8
  IN IF Len(bs) < i + n - 1 THEN [ok |-> FALSE]
     ELSE [ok |-> TRUE, next |-> i + n,
           v |-> IF n >= tgt THEN Sub(bs, i, n) ELSE SExt(Sub(bs, i, n), tgt)]

(* ---------------------------------------------------------------------- *)
(* Legacy (non-VEX) instruction                                           *)
(* ---------------------------------------------------------------------- *)
DecodeLegacyForm(bs, f, p, rex, io, c) ==
  \* io = index of the last opcode byte ; c = modrm context
  LET osz == OSize(f, Bit(rex, 3), p.p66)
      o3  == bs[io] % 8
  IN
  CASE f.enc = "N"    -> Ins(f.op, f.cc, <<>>, io)
    [] f.enc = "NOP1" -> IF bs[io] = 144 /\ Bit(rex, 0) = 0 THEN Ins("nop", 0, <<>>, io) ELSE Bad
    [] f.enc = "N3"   -> IF Len(bs) >= io + 1 /\ bs[io + 1] = f.b3 THEN Ins(f.op, 0, <<>>, io + 1) ELSE Bad
    [] f.enc = "N3I"  -> IF Len(bs) >= io + 2 /\ bs[io + 1] = f.b3
                         THEN Ins(f.op, 0, <<Imm(<<bs[io + 2]>>)>>, io + 2) ELSE Bad
    [] f.enc = "N3D"  -> LET n == IF p.p66 THEN 2 ELSE 4 IN
                         IF Len(bs) >= io + 1 + n /\ bs[io + 1] = f.b3
                         THEN Ins(f.op, 0, <<Rel(SExt(Sub(bs, io + 2, n), 4), FALSE)>>, io + 1 + n) ELSE Bad
    [] f.enc = "D"    -> LET n == IF f.sz = "b" THEN 1 ELSE 4 IN
                         IF Len(bs) >= io + n
                         THEN Ins(f.op, f.cc, <<Rel(SExt(Sub(bs, io + 1, n), 4), f.sz = "b")>>, io + n) ELSE Bad
    [] f.enc = "I"    -> LET im == GetImm(bs, io + 1, f.im, osz) IN
                         IF im.ok THEN Ins(f.op, f.cc, <<Imm(im.v)>>, im.next - 1) ELSE Bad
    [] f.enc = "AI"   -> LET im == GetImm(bs, io + 1, f.im, osz) IN
                         IF im.ok THEN Ins(f.op, f.cc, <<GReg(osz, 0, c.hasrex), Imm(im.v)>>, im.next - 1) ELSE Bad
    [] f.enc = "O"    -> Ins(f.op, f.cc, <<GReg(osz, o3 + (8 * c.b), c.hasrex)>>, io)
    [] f.enc = "OA"   -> IF o3 + (8 * c.b) = 0 THEN Bad   \* 90 / 48 90 / 66 90 are NOP
                         ELSE Ins(f.op, f.cc, <<GReg(osz, o3 + (8 * c.b), c.hasrex), GReg(osz, 0, c.hasrex)>>, io)
    [] f.enc = "OI"   -> LET im == GetImm(bs, io + 1, f.im, osz) IN
                         IF im.ok THEN Ins(f.op, f.cc, <<GReg(osz, o3 + (8 * c.b), c.hasrex), Imm(im.v)>>, im.next - 1) ELSE Bad
    [] OTHER ->
       LET m == ModRM(bs, io + 1, c) IN
       IF ~m.ok THEN Bad
       ELSE IF f.ext >= 0 /\ m.reg3 # f.ext THEN Bad
       ELSE IF f.sz = "s" THEN   \* MMX / SSE
         LET rfile == f.rf
             mfile == f.mf
             gw    == IF Bit(rex, 3) = 1 THEN 64 ELSE 32
             vw(fl) == IF fl = "m" THEN 64 ELSE 128
             regop == IF rfile = "g" THEN GReg(gw, m.reg, c.hasrex)
                      ELSE RegRec(rfile, vw(rfile), IF rfile = "m" THEN m.reg3 ELSE m.reg, FALSE)
             rmop  == IF m.isreg
                      THEN (IF mfile = "M" THEN [k |-> "bad"]
                            ELSE IF mfile = "g" THEN GReg(gw, m.rmn, c.hasrex)
                            ELSE IF mfile = "R" THEN RegRec("x", 128, m.rmn, FALSE)
                            ELSE RegRec(mfile, vw(mfile), IF mfile = "m" THEN m.rmn % 8 ELSE m.rmn, FALSE))
                      ELSE (IF mfile = "R" THEN [k |-> "bad"]
                            ELSE MemW(m.mem, IF mfile = "g" THEN gw ELSE f.mw))
             opn   == IF f.op = "movd" /\ Bit(rex, 3) = 1 THEN "movq" ELSE f.op
         IN IF rmop.k = "bad" THEN Bad
            ELSE IF f.enc = "RM" THEN Ins(opn, 0, <<regop, rmop>>, m.next - 1)
            ELSE IF f.enc = "MR" THEN Ins(opn, 0, <<rmop, regop>>, m.next - 1)
            ELSE \* "MI"
              IF Len(bs) >= m.next THEN Ins(opn, 0, <<rmop, Imm(<<bs[m.next]>>)>>, m.next) ELSE Bad
       ELSE
         LET esz   == IF f.x = "srcb" THEN 8 ELSE IF f.x = "srcw" THEN 16 ELSE osz
             rmop  == IF m.isreg THEN (IF f.x \in {"memonly", "lea", "far"} THEN [k |-> "bad"] ELSE GReg(esz, m.rmn, c.hasrex))
                      ELSE MemW(m.mem, IF f.x = "lea" THEN 0 ELSE IF f.x = "far" THEN osz + 16 ELSE IF f.x = "memonly" THEN 8 ELSE esz)
             regop == GReg(osz, m.reg, c.hasrex)
         IN IF rmop.k = "bad" THEN Bad
            ELSE
            CASE f.enc = "MR"  -> Ins(f.op, f.cc, <<rmop, regop>>, m.next - 1)
              [] f.enc = "RM"  -> Ins(f.op, f.cc, <<regop, rmop>>, m.next - 1)
              [] f.enc = "M"   -> Ins(IF f.x = "nopm" THEN "nop" ELSE f.op, f.cc, IF f.x = "nopm" THEN <<>> ELSE <<rmop>>, m.next - 1)
              [] f.enc = "M1"  -> Ins(f.op, f.cc, <<rmop, Imm(<<1>>)>>, m.next - 1)
              [] f.enc = "MC"  -> Ins(f.op, f.cc, <<rmop, RegRec("g", 8, 1, FALSE)>>, m.next - 1)
              [] f.enc = "MRC" -> Ins(f.op, f.cc, <<rmop, regop, RegRec("g", 8, 1, FALSE)>>, m.next - 1)
              [] f.enc = "MI"  -> LET im == GetImm(bs, m.next, f.im, IF f.x = "u8" THEN 8 ELSE osz) IN
                                  IF im.ok THEN Ins(f.op, f.cc, <<rmop, Imm(im.v)>>, im.next - 1) ELSE Bad
              [] f.enc = "MRI" -> LET im == GetImm(bs, m.next, f.im, 8) IN
                                  IF im.ok THEN Ins(f.op, f.cc, <<rmop, regop, Imm(im.v)>>, im.next - 1) ELSE Bad
              [] f.enc = "RMI" -> LET im == GetImm(bs, m.next, f.im, osz) IN
                                  IF im.ok THEN Ins(f.op, f.cc, <<regop, rmop, Imm(im.v)>>, im.next - 1) ELSE Bad
              [] OTHER -> Bad

DecodeLegacy(bs, p) ==
  LET i0     == p.i
      hasrex == i0 <= Len(bs) /\ bs[i0] >= 64 /\ bs[i0] < 80
      rex    == IF hasrex THEN bs[i0] - 64 ELSE 0
      i1     == IF hasrex THEN i0 + 1 ELSE i0
  IN IF i1 > Len(bs) THEN Bad ELSE
  LET esc2  == bs[i1] = 15
      esc3  == esc2 /\ Len(bs) > i1 /\ bs[i1 + 1] = 56
      esc4  == esc2 /\ Len(bs) > i1 /\ bs[i1 + 1] = 58
      map   == IF esc3 THEN 3 ELSE IF esc4 THEN 4 ELSE IF esc2 THEN 2 ELSE 1
      io    == i1 + (IF map = 1 THEN 0 ELSE IF map = 2 THEN 1 ELSE 2)
  IN IF io > Len(bs) THEN Bad ELSE
  LET c     == [r |-> Bit(rex, 2), x |-> Bit(rex, 1), b |-> Bit(rex, 0), hasrex |-> hasrex, p67 |-> p.p67]
      ext3  == IF Len(bs) > io THEN Fld(bs[io + 1], 3, 3) ELSE -1
      ppeff == IF p.rep # "" THEN p.rep ELSE IF p.p66 THEN "66" ELSE "NP"
      cands == {f \in LegacyAt[map * 256 + bs[io]] :
                  /\ (f.pp = "-" /\ p.rep = "") \/ (f.pp # "-" /\ f.pp = ppeff)
                  /\ f.ext = -1 \/ f.ext = ext3
                  /\ f.enc \in {"N3", "N3I", "N3D"} => (Len(bs) > io /\ bs[io + 1] = f.b3) }
      \* fixed third-byte forms take precedence over /digit forms on the same opcode
      pri   == IF \E f \in cands : f.enc \in {"N3", "N3I", "N3D"} THEN {f \in cands : f.enc \in {"N3", "N3I", "N3D"}}
               ELSE IF \E f \in cands : f.enc = "NOP1" /\ bs[io] = 144 /\ Bit(rex, 0) = 0 THEN {f \in cands : f.enc = "NOP1"}
               ELSE {f \in cands : f.enc # "NOP1"}
  IN IF Cardinality(pri) # 1 THEN Bad
     ELSE DecodeLegacyForm(bs, CHOOSE f \in pri : TRUE, p, rex, io, c)

(* ---------------------------------------------------------------------- *)
(* VEX                                                                    *)
(* ---------------------------------------------------------------------- *)
DecodeVex(bs, p) ==
  LET i == p.i
      three == bs[i] = 196
      need == IF three THEN 3 ELSE 2
  IN IF p.p66 \/ p.rep # "" \/ Len(bs) < i + need THEN Bad ELSE
  LET b1   == bs[i + 1]
      b2   == IF three THEN bs[i + 2] ELSE b1
      R    == 1 - Bit(b1, 7)
      Xb   == IF three THEN 1 - Bit(b1, 6) ELSE 0
      B    == IF three THEN 1 - Bit(b1, 5) ELSE 0
      map  == IF three THEN Fld(b1, 0, 5) + 1 ELSE 2
      W    == IF three THEN Bit(b2, 7) ELSE 0
      vvvv == 15 - Fld(b2, 3, 4)
      L    == Bit(b2, 2)
      pp   == <<"NP", "66", "F3", "F2">>[Fld(b2, 0, 2) + 1]
      io   == i + need
  IN IF map \notin 2..4 THEN Bad ELSE
  LET cands == {f \in VexAt[map * 256 + bs[io]] :
                  /\ f.pp = pp
                  /\ f.x.L = -1 \/ f.x.L = L
                  /\ f.x.W < 0 \/ f.x.W = W
                  /\ f.x.vv = "none" => vvvv = 0 }
  IN IF Cardinality(cands) # 1 THEN Bad ELSE
  LET f == CHOOSE g \in cands : TRUE
      c == [r |-> R, x |-> Xb, b |-> B, hasrex |-> TRUE, p67 |-> p.p67]
      m == ModRM(bs, io + 1, c)
  IN IF ~m.ok THEN Bad ELSE
  LET vw   == IF f.x.rf = "g" THEN (IF W = 1 THEN 64 ELSE 32) ELSE (IF L = 1 THEN 256 ELSE 128)
      file == IF f.x.rf = "g" THEN "g" ELSE IF L = 1 THEN "y" ELSE "x"
      R1   == RegRec(file, vw, m.reg, FALSE)
      VV   == RegRec(file, vw, vvvv, FALSE)
      RMo  == IF m.isreg THEN RegRec(file, vw, m.rmn, FALSE) ELSE MemW(m.mem, vw)
      ops  == CASE f.enc = "RVM" -> <<R1, VV, RMo>>
                [] f.enc = "RMV" -> <<R1, RMo, VV>>
                [] f.enc = "RM"  -> <<R1, RMo>>
                [] f.enc = "MR"  -> <<RMo, R1>>
      last == m.next - 1
  IN IF f.im = 1
     THEN (IF Len(bs) >= m.next THEN Ins(f.op, 0, Append(ops, Imm(<<bs[m.next]>>)), m.next) ELSE Bad)
     ELSE Ins(f.op, 0, ops, last)

Decode(bs) ==
  IF Len(bs) = 0 THEN Bad ELSE
  LET p == Legacy(bs, 1, [p66 |-> FALSE, p67 |-> FALSE, rep |-> "", i |-> 1])
  IN IF p.i > Len(bs) THEN Bad
     ELSE IF bs[p.i] \in {196, 197} THEN DecodeVex(bs, p)
     ELSE LET d == DecodeLegacy(bs, p) IN
          \* 66 90 / 66 66 90 ... are NOPs; F3 90 (pause) is not in scope
          d

DecodeOne(bs) == LET d == Decode(bs) IN IF d.ok /\ d.len = Len(bs) THEN d ELSE Bad

(* sequence of instructions covering bs exactly, or <<Bad>> *)
RECURSIVE DecodeAllFrom(_, _, _)
DecodeAllFrom(bs, i, acc) ==
  IF i > Len(bs) THEN acc
  ELSE LET d == Decode(SubSeq(bs, i, Len(bs))) IN
       IF ~d.ok \/ d.len < 1 THEN <<Bad>>
       ELSE DecodeAllFrom(bs, i + d.len, Append(acc, d))
DecodeAll(bs) == DecodeAllFrom(bs, 1, <<>>)

(* any architecturally valid NOP: 90 with any number of 66 prefixes, or 0F 1F /0 *)
IsNop(d) == d.ok /\ d.op = "nop"
AllNops(bs) == LET ds == DecodeAll(bs) IN \A k \in 1..Len(ds) : IsNop(ds[k])

(* 64-bit value left in the destination register by a decoded  mov r, imm  *)
MovResult(d) ==
  LET dst == d.ops[1]  im == d.ops[2].v IN
  IF dst.w = 64 THEN im                          \* imm64, or imm32 already sign-extended by GetImm
  ELSE IF dst.w = 32 THEN ZExt(im, 8)            \* 32-bit destination zero-extends
  ELSE <<>>                                      \* 8/16-bit destinations keep the upper bits: no single value
=============================================================================
