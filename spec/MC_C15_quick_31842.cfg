SPECIFICATION Spec
CONSTANTS
 T = 4
 Q = 6
 NINST = 2
 LENS = {1,3}
 MAXPROG = 2
 CAPS = {7,12}
 Q0 = 10
 CHUNKS = {0,2,4}
 OFFS = {0,2,5}
 KINDS = {"ext","int"}
 SETTERS = {}
 DEPTH = 4
 EMITACTS = {"asm","count"}
CONSTRAINT Bounded
VIEW View
ACTION_CONSTRAINT Emit
PROPERTY C06_Concat
PROPERTY C07_Contained
PROPERTY PrefixKept
PROPERTY C08_Growth
PROPERTY C13_Fit
PROPERTY C14_Count
PROPERTY C15_FailKeeps
PROPERTY C15_HistFree
PROPERTY C15_CountNeutral
PROPERTY C12_Options
