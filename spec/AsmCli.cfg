SPECIFICATION Spec
CONSTANTS
 T = 20
 Q = 6000
POSTCONDITION Accepted
CHECK_DEADLOCK FALSE
