----------------------------- MODULE AsmThreads -----------------------------
(* The interleaving model of C18 (definitions and commentary: AsmThreadsDefs.tla) *)
EXTENDS AsmThreadsDefs
(* ------------------------------- the model -------------------------------- *)
VARIABLES tbv, pc, rnd, hist, bad
mvars == <<tbv, pc, rnd, hist, bad>>
Init == /\ tbv = [c \in Cells |-> 0] /\ pc = [t \in Threads |-> 0] /\ rnd = [t \in Threads |-> 0]
        /\ hist = <<>> /\ bad = FALSE
Done(t) == rnd[t] >= ROUNDS
Step(t) ==
  /\ ~Done(t)
  /\ LET acc == AccOf(t, rnd[t])
         a   == acc[pc[t] + 1]
         c   == <<a.t, a.i>>
     IN /\ IF a.s = 1 THEN tbv' = [tbv EXCEPT ![c] = a.v] /\ bad' = bad
           ELSE tbv' = tbv /\ bad' = (bad \/ tbv[c] # Final[c])
        /\ IF pc[t] + 1 = Len(acc) THEN pc' = [pc EXCEPT ![t] = 0] /\ rnd' = [rnd EXCEPT ![t] = rnd[t] + 1]
           ELSE pc' = [pc EXCEPT ![t] = pc[t] + 1] /\ UNCHANGED rnd
  /\ hist' = Append(hist, t)
Next == \E t \in Threads : Step(t)
Spec == Init /\ [][Next]_mvars
View == <<tbv, pc, rnd, bad>>
\* C18 on the model: every lookup of every thread, in every interleaving, sees the final table values
LookupSeesFinal == ~bad
\* complete schedules for the replay harness (printed when the last thread finishes; used with -simulate)
EmitSchedule == (\A t \in Threads : rnd'[t] >= ROUNDS) => PrintT("SCHED|" \o ToJson(hist'))
=============================================================================
