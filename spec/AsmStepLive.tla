---------------------------- MODULE AsmStepLive ----------------------------
(* Termination of the placement of one instruction (the design-level half of C09's "the call terminates" and of C13's       *)
(* "at most one padding per instruction and chunk end"): from any position, capacity, mode and chunk size of the bounded     *)
(* instance, the steps check_len_or_resize / trial write and padding / final write of AsmStep.tla reach "written" or         *)
(* "failed" - under weak fairness of the step relation, i.e. there is no cycle room -> decide -> pad -> room that can go on  *)
(* for ever - and pad at most twice on the way.  TLC, liveness checking, no state constraint (the instance is finite: no new *)
(* instruction begins).                                                                                                      *)
EXTENDS AsmStep, TLC

SmallRange == 0..120
LInit ==
  /\ ext \in BOOLEAN /\ mode \in {"A", "F", "C"} /\ c \in 2..9
  /\ cap \in (IF ext THEN 0..16 ELSE {T + Q})
  /\ pos \in (IF ext THEN 0..cap ELSE 0..(cap + 2 * Q))
  /\ phase = "room" /\ len \in 1..MAXLEN /\ n = 0 /\ wlo = -1 /\ whi = -1
LNext == Room \/ Pad \/ Emit
LSpec == LInit /\ [][LNext]_vars /\ WF_vars(LNext)

Terminates == <>(phase \in {"idle", "failed"})
PadsTwiceAtMost == [](n <= 2)
\* once written or failed nothing moves any more (the next instruction needs a new Begin)
Quiescent == [][(phase \in {"idle", "failed"}) => (vars' = vars)]_vars
=============================================================================
