------------------------------- MODULE AsmApi -------------------------------
(* API layer (DESIGN 3.4): the library as a state machine with one action per *)
(* public call.  The mechanism (AsmMech.tla) says what the code does; the      *)
(* properties C06 C07 C08 C12 C13 C14 C15 are written against reference        *)
(* definitions and checked by TLC on every reachable state / taken step.       *)
(* Every explored transition is printed (Emit) so that the harness can replay  *)
(* it on the real library; the replayed executions are validated by            *)
(* ApiTrace.tla, which reuses the same mechanism with the real constants.      *)
EXTENDS AsmMech, TLC, Json

CONSTANTS NINST,      \* number of instance slots
          LENS,       \* lengths of the abstract valid lines (0 is the rejected line)
          MAXPROG,    \* lines per program
          CAPS,       \* caller-buffer lengths explored
          Q0,         \* initial capacity of a library-managed buffer
          CHUNKS,     \* chunk-size arguments explored
          OFFS,       \* offsets explored by asm_set_offset
          KINDS,      \* subset of {"ext", "int"}
          SETTERS,    \* option setters explored (subset of {"mov","swap","nobase","sib","all"})
          DEPTH,      \* bound on the number of calls
          EMITACTS    \* actions whose transitions are printed for replay

Inst  == 1..NINST
Lines == LENS \cup {0}
Progs == UNION {[1..n -> Lines] : n \in 0..MAXPROG}
OptVals == {"STRICT", "NASM", "SMART", "BAD"}

VARIABLES inst,    \* per slot: alive, ext, cap, off, fit (chunk setting, 0 = off), opt, buf (cells 0..cap-1), gen
          tbl,     \* the process-global lookup tables: "zero" until the first create
          last,    \* ghost: what the last action was and what it returned
          hist     \* ghost: the actions taken so far (replay script); hidden from the state by VIEW
vars == <<inst, tbl, last, hist>>

Dead == [alive |-> FALSE, ext |-> FALSE, cap |-> 0, off |-> 0, fit |-> 0, opt |-> DefaultOpt, buf |-> <<>>]
NoLast == [act |-> "init", i |-> 0, ret |-> 0, dest |-> 0, off0 |-> 0, lens |-> <<>>, m |-> "A", c |-> 0, r |-> [ok |-> TRUE], cap0 |-> 0, ext |-> TRUE, fit |-> 0]

Init == /\ inst = [i \in Inst |-> Dead]
        /\ tbl = "zero"
        /\ last = NoLast
        /\ hist = <<>>

Cells(n) == [k \in 1..n |-> <<"u">>]                       \* untouched cells (sequence index = buffer index + 1)
Log(op) == hist' = Append(hist, op)

(* ------------------------------ life cycle ------------------------------ *)
Create(i, kind, cap) ==
  /\ ~inst[i].alive
  /\ inst' = [inst EXCEPT ![i] = [alive |-> TRUE, ext |-> kind = "ext", cap |-> IF kind = "ext" THEN cap ELSE Q0, off |-> 0, fit |-> 0,
                                  opt |-> DefaultOpt, buf |-> Cells(IF kind = "ext" THEN cap ELSE Q0)]]
  /\ tbl' = "built"                                          \* asm_build_index_tables: idempotent rebuild
  /\ last' = [NoLast EXCEPT !.act = "create", !.i = i]
  /\ Log([op |-> "create", i |-> i, kind |-> kind, cap |-> cap])

Destroy(i) ==
  /\ inst[i].alive
  /\ inst' = [inst EXCEPT ![i] = Dead]
  /\ last' = [NoLast EXCEPT !.act = "destroy", !.i = i]
  /\ Log([op |-> "destroy", i |-> i])
  /\ UNCHANGED tbl

(* ------------------------------- setters -------------------------------- *)
Setter(i, s, v) ==
  /\ inst[i].alive
  /\ inst' = [inst EXCEPT ![i].opt = Apply(s, inst[i].opt, v)]
  /\ last' = [NoLast EXCEPT !.act = "opt", !.i = i]
  /\ Log([op |-> "opt", i |-> i, s |-> s, v |-> v])
  /\ UNCHANGED tbl

SetChunk(i, c) ==
  /\ inst[i].alive
  /\ inst' = [inst EXCEPT ![i].fit = IF c < 2 THEN 0 ELSE c]    \* chunk sizes below 2 disable fitting
  /\ last' = [NoLast EXCEPT !.act = "chunk", !.i = i]
  /\ Log([op |-> "chunk", i |-> i, c |-> c])
  /\ UNCHANGED tbl

SetOffset(i, k) ==
  /\ inst[i].alive /\ (inst[i].ext => k <= inst[i].cap)      \* (C07 speaks about offsets 0..n of a caller buffer; a library-managed buffer takes any offset and grows to it)
  /\ inst' = [inst EXCEPT ![i].off = k]
  /\ last' = [NoLast EXCEPT !.act = "offset", !.i = i]
  /\ Log([op |-> "offset", i |-> i, k |-> k])
  /\ UNCHANGED tbl

(* ------------------------------- assemble ------------------------------- *)
\* buffer after the steps of a call: the last writer of a cell wins; growth appends untouched cells
CellOf(s, idx) == IF s.k = "pad" THEN <<"n">> ELSE <<"i", s.len, idx - s.pos>>
RECURSIVE Paint(_, _, _)
Paint(buf, steps, j) ==
  IF j > Len(steps) THEN buf
  ELSE LET s == steps[j] IN
       IF s.k = "grow" THEN Paint(buf \o Cells(s.len - s.pos), steps, j + 1)
       ELSE Paint([x \in 1..Len(buf) |-> IF x - 1 >= s.pos /\ x - 1 < s.pos + s.len THEN CellOf(s, x - 1) ELSE buf[x]], steps, j + 1)

Call(i, lens, m, c, isCount) ==
  LET s == inst[i]
      r == Run(s.off, s.cap, lens, m, c, s.ext)
  IN /\ s.alive /\ tbl = "built"
     /\ inst' = [inst EXCEPT ![i].off = IF r.ok THEN r.p ELSE s.off,       \* a failed call keeps the offset
                             ![i].cap = r.cap,
                             ![i].buf = Paint(s.buf, r.steps, 1)]
     /\ last' = [act |-> IF isCount THEN "count" ELSE "asm", i |-> i, ret |-> IF r.ok THEN 0 ELSE 1, dest |-> r.brk,
                 off0 |-> s.off, lens |-> lens, m |-> m, c |-> c, r |-> r, cap0 |-> s.cap, ext |-> s.ext, fit |-> s.fit]
     /\ UNCHANGED tbl

AsmStr(i, lens) ==
  /\ Call(i, lens, IF inst[i].fit >= 2 THEN "F" ELSE "A", inst[i].fit, FALSE)
  /\ Log([op |-> "asm", i |-> i, lens |-> lens])
\* the counting entry point: counting mode for this call only (c < 2: plain assembly reporting zero)
Count(i, lens, c) ==
  /\ Call(i, lens, IF c < 2 THEN "A" ELSE "C", c, TRUE)
  /\ Log([op |-> "count", i |-> i, lens |-> lens, c |-> c])

Next ==
  \/ \E i \in Inst, k \in KINDS, cap \in CAPS : Create(i, k, cap)
  \/ \E i \in Inst : Destroy(i)
  \/ \E i \in Inst, s \in SETTERS, v \in OptVals : Setter(i, s, v)
  \/ \E i \in Inst, c \in CHUNKS : SetChunk(i, c)
  \/ \E i \in Inst, k \in OFFS : SetOffset(i, k)
  \/ \E i \in Inst, p \in Progs : AsmStr(i, p)
  \/ \E i \in Inst, p \in Progs, c \in CHUNKS : Count(i, p, c)
Spec == Init /\ [][Next]_vars

Bounded == Len(hist) <= DEPTH
\* The view hides the buffer contents, the script and the description of the last step: every property below is an
\* action property over (inst, inst', last'), and TLC evaluates action properties on every generated transition,
\* so identifying states that differ only in these ghosts loses nothing and keeps the state graph small.
\* The depth stays in the view whenever the bound can bind (Bounded reads hist): otherwise which histories are explored would
\* depend on the order in which the workers reach view-equal states.  A model with DEPTH >= 50 is explored to its fixpoint.
View == <<[i \in Inst |-> [inst[i] EXCEPT !.buf = <<>>]], tbl, IF DEPTH < 50 THEN Len(hist) ELSE 0>>

\* print every explored transition as a replay script for the harness
Emit == (last'.act \in EMITACTS) => PrintT("TR|" \o ToJson(hist'))

(* ============================== properties ============================== *)
(* Each property is a predicate P(L, I0, I1) on the step just taken (L = last', I0 = inst, I1 = inst'), wrapped as *)
(* the action property [][P(last', inst, inst')]_vars.                                                            *)
IsCall(L) == L.act \in {"asm", "count"}
Total(lens) == Sum(lens, Len(lens))
Slice(buf, a, b) == SubSeq(buf, a + 1, b)                    \* cells a..b-1
RECURSIVE Layout(_, _)
Layout(lens, j) == IF j > Len(lens) THEN <<>> ELSE [k \in 1..lens[j] |-> <<"i", lens[j], k - 1>>] \o Layout(lens, j + 1)

\* C06: plain (and counting) assembly = concatenation of the lines' codes from the start offset; offset advances by the total
P_C06_Concat(L, I0, I1) ==
  (IsCall(L) /\ L.ret = 0 /\ L.m # "F") =>
     /\ I1[L.i].off = L.off0 + Total(L.lens)
     /\ Slice(I1[L.i].buf, L.off0, I1[L.i].off) = Layout(L.lens, 1)
\* C07: nothing outside the caller buffer, nothing before the start offset; the reserve rule
P_C07_Contained(L, I0, I1) ==
  (IsCall(L) /\ L.ext) =>
     /\ Written(L.r.steps) \subseteq L.off0..(L.cap0 - 1)
     /\ \A j \in 1..Len(L.r.steps) : L.r.steps[j].pos + T <= L.cap0
     /\ I1[L.i].cap = L.cap0
     /\ (L.ret = 0 => \A j \in 1..Len(L.r.items) : L.r.items[j].pos + T <= L.cap0)
\* C07/C15: a call never changes a cell before its start offset (hence a split program = the whole program, C06)
P_PrefixKept(L, I0, I1) ==
  IsCall(L) => LET n == IF L.off0 <= Len(I0[L.i].buf) THEN L.off0 ELSE Len(I0[L.i].buf) IN      \* (an offset beyond the capacity: every cell that existed)
               Slice(I1[L.i].buf, 0, n) = Slice(I0[L.i].buf, 0, n)
\* C08: a library-managed buffer never fails for lack of room; everything written is inside the (grown) capacity
P_C08_Growth(L, I0, I1) ==
  (IsCall(L) /\ ~L.ext) => /\ L.r.why # "room"
                           /\ Written(L.r.steps) \subseteq L.off0..(I1[L.i].cap - 1)
                           /\ Len(I1[L.i].buf) = I1[L.i].cap
\* C13: fitting = plain code with padding exactly where needed; fitting off = plain
P_C13_Fit(L, I0, I1) ==
  /\ (IsCall(L) /\ L.m = "F" /\ L.ret = 0) =>
        /\ L.r.items = RefFit(L.lens, L.c, L.off0, 1)
        /\ \A j \in 1..Len(L.r.items) : LET it == L.r.items[j] IN
              (it.k = "ins" /\ it.len < L.c) => (it.pos \div L.c) = ((it.pos + it.len - 1) \div L.c)
  /\ (L.act = "asm" /\ L.fit = 0) => L.m = "A"
\* C14: the count of the current call, and plain bytes
P_C14_Count(L, I0, I1) ==
  (L.act = "count" /\ L.ret = 0) =>
     /\ L.dest = RefBreaks(L.lens, L.c, L.off0)
     /\ \A j \in 1..Len(L.r.items) : L.r.items[j].k = "ins"
\* C15: a failed call keeps the offset; the result depends only on text, options, chunk setting, offset and buffer geometry
P_C15_FailKeeps(L, I0, I1) == (IsCall(L) /\ L.ret = 1) => I1[L.i].off = L.off0
P_C15_HistFree(L, I0, I1) ==
  IsCall(L) =>
    LET s == I0[L.i] IN
    L.r = Run(s.off, s.cap, L.lens,
              IF L.act = "count" THEN (IF L.c < 2 THEN "A" ELSE "C") ELSE (IF s.fit >= 2 THEN "F" ELSE "A"),
              IF L.act = "count" THEN L.c ELSE s.fit, s.ext)
\* C15: a counting call changes neither the chunk setting nor the mode of later calls
P_C15_CountNeutral(L, I0, I1) == (L.act = "count") => I1[L.i].fit = I0[L.i].fit /\ I1[L.i].opt = I0[L.i].opt
\* C12: option values stay in the documented domain; settings of one instance never affect another
P_C12(L, I0, I1) ==
  /\ \A i \in Inst : I1[i].opt.mov \in {"STRICT", "NASM", "SMART"} /\ I1[i].opt.swap \in {"STRICT", "NASM"} /\ I1[i].opt.nobase \in {"STRICT", "NASM"}
  /\ \A i \in Inst : (L.i # i /\ I0[i].alive) => I1[i] = I0[i]
  /\ (L.act = "create") => I1[L.i].opt = DefaultOpt

C06_Concat   == [][P_C06_Concat(last', inst, inst')]_vars
C07_Contained == [][P_C07_Contained(last', inst, inst')]_vars
PrefixKept   == [][P_PrefixKept(last', inst, inst')]_vars
C08_Growth   == [][P_C08_Growth(last', inst, inst')]_vars
C13_Fit      == [][P_C13_Fit(last', inst, inst')]_vars
C14_Count    == [][P_C14_Count(last', inst, inst')]_vars
C15_FailKeeps == [][P_C15_FailKeeps(last', inst, inst')]_vars
C15_HistFree == [][P_C15_HistFree(last', inst, inst')]_vars
C15_CountNeutral == [][P_C15_CountNeutral(last', inst, inst')]_vars
C12_Options  == [][P_C12(last', inst, inst')]_vars
=============================================================================
