------------------------------- MODULE AsmMech -------------------------------
(* The mechanism of one assemble call (DESIGN 3.4), shaped like the code:     *)
(*   assemble_all -> per line: str_to_instr (parse) ; check_len_or_resize     *)
(*   (room: fail on a caller buffer, grow the internal one) ; then            *)
(*   assemble | assemble_counting_chunks | assemble_with_chunk_fitting.       *)
(* Shared by the bounded model AsmApi.tla (scaled constants) and by the trace *)
(* specification ApiTrace.tla (the library's real constants), so there is one *)
(* source of truth for what a call does.                                      *)
EXTENDS Integers, Sequences, FiniteSets

CONSTANTS T,    \* reserve that must remain before an instruction is written (BUFFER_TOLERANCE, 20)
          Q     \* growth quantum of the library-managed buffer (MEM_BUFFER, 6000)

Step(k, pos, len, cap) == [k |-> k, pos |-> pos, len |-> len, cap |-> cap]

\* check_len_or_resize on a library-managed buffer: grow by as many quanta as the write position needs (asm_set_offset may have put
\* it any distance beyond the capacity; from a position inside the buffer one quantum restores the reserve because Q >= T)
GrowCap(p, cap) == LET d == p + T - cap IN cap + Q * (IF d <= Q THEN 1 ELSE (d + Q - 1) \div Q)

\* One instruction of length len at position p.  m: "A" plain, "F" fitting, "C" counting ; c chunk size ;
\* ext: caller-provided buffer ; n: padding rounds done.
\* Result: ok, new position p, new capacity, steps (what the hooks report, in order), items (final layout), brk
RECURSIVE One(_, _, _, _, _, _, _)
One(p, cap, len, m, c, ext, n) ==
  LET need == p + T > cap IN
  IF need /\ ext
  THEN [ok |-> FALSE, p |-> p, cap |-> cap, steps |-> <<>>, items |-> <<>>, brk |-> 0]
  ELSE LET cap2  == IF need THEN GrowCap(p, cap) ELSE cap
           gs    == IF need THEN <<Step("grow", cap, cap2, cap2)>> ELSE <<>>
           free  == IF m = "A" THEN 0 ELSE c - (p % c)
           trial == IF m = "F" THEN <<Step("trial", p, len, cap2)>> ELSE <<>>
       IN IF m = "F" /\ ~(len <= free \/ len >= c) /\ n < 2
          THEN LET r == One(p + free, cap2, len, m, c, ext, n + 1) IN
               [ok |-> r.ok, p |-> r.p, cap |-> r.cap,
                steps |-> gs \o trial \o <<Step("pad", p, free, cap2)>> \o r.steps,
                items |-> <<[k |-> "pad", pos |-> p, len |-> free]>> \o r.items, brk |-> 0]
          ELSE [ok |-> TRUE, p |-> p + len, cap |-> cap2,
                steps |-> gs \o trial \o <<Step("ins", p, len, cap2)>>,
                items |-> <<[k |-> "ins", pos |-> p, len |-> len]>>,
                brk |-> IF m = "C" /\ len > free THEN 1 ELSE 0]

\* A program: sequence of line lengths (0 = a line the parser rejects).  RunFrom is the definition: lines in order, stop at
\* the first line that is rejected or finds no room.
RECURSIVE RunFrom(_, _, _, _, _, _, _)
RunFrom(p, cap, lens, m, c, ext, j) ==
  IF j > Len(lens) THEN [ok |-> TRUE, p |-> p, cap |-> cap, steps |-> <<>>, items |-> <<>>, brk |-> 0, why |-> "", at |-> 0]
  ELSE IF lens[j] = 0 THEN [ok |-> FALSE, p |-> p, cap |-> cap, steps |-> <<>>, items |-> <<>>, brk |-> 0, why |-> "parse", at |-> j]
  ELSE LET a == One(p, cap, lens[j], m, c, ext, 0) IN
       IF ~a.ok THEN [ok |-> FALSE, p |-> p, cap |-> a.cap, steps |-> a.steps, items |-> a.items, brk |-> 0, why |-> "room", at |-> j]
       ELSE LET b == RunFrom(a.p, a.cap, lens, m, c, ext, j + 1) IN
            [ok |-> b.ok, p |-> b.p, cap |-> b.cap, steps |-> a.steps \o b.steps, items |-> a.items \o b.items,
             brk |-> a.brk + b.brk, why |-> b.why, at |-> b.at]
\* The same function evaluated by halving the range (the state p, cap is threaded left to right).  TLC's evaluation
\* context grows with the recursion depth and every name lookup walks it, so the linear recursion above costs time quadratic
\* in the program length (25 s for the 4 146 lines of the repository's test/mov.asm); this form has logarithmic depth.
\* spec/AsmMechEquiv.tla has TLC check that both agree on every small program.
RECURSIVE RunSeg(_, _, _, _, _, _, _, _)
RunSeg(p, cap, lens, m, c, ext, lo, hi) ==
  IF lo > hi THEN [ok |-> TRUE, p |-> p, cap |-> cap, steps |-> <<>>, items |-> <<>>, brk |-> 0, why |-> "", at |-> 0]
  ELSE IF lo = hi
  THEN (IF lens[lo] = 0 THEN [ok |-> FALSE, p |-> p, cap |-> cap, steps |-> <<>>, items |-> <<>>, brk |-> 0, why |-> "parse", at |-> lo]
        ELSE LET a == One(p, cap, lens[lo], m, c, ext, 0) IN
             IF ~a.ok THEN [ok |-> FALSE, p |-> p, cap |-> a.cap, steps |-> a.steps, items |-> a.items, brk |-> 0, why |-> "room", at |-> lo]
             ELSE [ok |-> TRUE, p |-> a.p, cap |-> a.cap, steps |-> a.steps, items |-> a.items, brk |-> a.brk, why |-> "", at |-> 0])
  ELSE LET mid == (lo + hi) \div 2
           a   == RunSeg(p, cap, lens, m, c, ext, lo, mid)
       IN IF ~a.ok THEN a
          ELSE LET b == RunSeg(a.p, a.cap, lens, m, c, ext, mid + 1, hi) IN
               [ok |-> b.ok, p |-> b.p, cap |-> b.cap, steps |-> a.steps \o b.steps, items |-> a.items \o b.items,
                brk |-> a.brk + b.brk, why |-> b.why, at |-> b.at]
Run(p, cap, lens, m, c, ext) == RunSeg(p, cap, lens, m, c, ext, 1, Len(lens))

\* cells touched by the steps of a call
Written(steps) == UNION { {s.pos + k : k \in 0..(s.len - 1)} : s \in {steps[j] : j \in {x \in 1..Len(steps) : steps[x].k # "grow"}} }

(* ------------------------------ option setters -------------------------- *)
DefaultOpt == [mov |-> "SMART", swap |-> "NASM", nobase |-> "NASM"]      \* a new instance: SMART / NASM / NASM
\* documented effect of each option setter (man pages): values a setter does not document change nothing
SetMov(o, v)    == IF v \in {"STRICT", "NASM", "SMART"} THEN [o EXCEPT !.mov = v] ELSE o
SetSwap(o, v)   == IF v \in {"STRICT", "NASM"} THEN [o EXCEPT !.swap = v] ELSE o
SetNoBase(o, v) == IF v \in {"STRICT", "NASM"} THEN [o EXCEPT !.nobase = v] ELSE o
SetSib(o, v)    == SetNoBase(SetSwap(o, v), v)
SetAll(o, v)    == IF v = "SMART" THEN SetMov(o, v) ELSE IF v \in {"STRICT", "NASM"} THEN SetSib(SetMov(o, v), v) ELSE o
Apply(s, o, v)  == CASE s = "mov" -> SetMov(o, v) [] s = "swap" -> SetSwap(o, v) [] s = "nobase" -> SetNoBase(o, v)
                     [] s = "sib" -> SetSib(o, v) [] s = "all" -> SetAll(o, v)


(* ---------------------------- reference definitions ---------------------- *)
RECURSIVE SumDef(_, _)
SumDef(lens, j) == IF j = 0 THEN 0 ELSE lens[j] + SumDef(lens, j - 1)
RECURSIVE SumSeg(_, _, _)
SumSeg(lens, lo, hi) == IF lo > hi THEN 0 ELSE IF lo = hi THEN lens[lo] ELSE LET mid == (lo + hi) \div 2 IN SumSeg(lens, lo, mid) + SumSeg(lens, mid + 1, hi)
Sum(lens, j) == SumSeg(lens, 1, j)
\* C14: instructions whose bytes, at their final positions, span two or more c-aligned chunks
RefBreaksDef(lens, c, start) ==
  IF c < 2 THEN 0
  ELSE Cardinality({j \in 1..Len(lens) : LET p == start + SumDef(lens, j - 1) IN (p \div c) # ((p + lens[j] - 1) \div c)})
RECURSIVE BreaksSeg(_, _, _, _, _)          \* [n: breaks in lo..hi, p: position after them]
BreaksSeg(lens, c, p, lo, hi) ==
  IF lo > hi THEN [n |-> 0, p |-> p]
  ELSE IF lo = hi THEN [n |-> IF (p \div c) # ((p + lens[lo] - 1) \div c) THEN 1 ELSE 0, p |-> p + lens[lo]]
  ELSE LET mid == (lo + hi) \div 2
           a == BreaksSeg(lens, c, p, lo, mid)
           b == BreaksSeg(lens, c, a.p, mid + 1, hi)
       IN [n |-> a.n + b.n, p |-> b.p]
RefBreaks(lens, c, start) == IF c < 2 THEN 0 ELSE BreaksSeg(lens, c, start, 1, Len(lens)).n
\* C13: the reference layout of a fitted program: padding exactly where the next instruction (shorter than c) would cross
RECURSIVE RefFitDef(_, _, _, _)
RefFitDef(lens, c, p, j) ==
  IF j > Len(lens) THEN <<>>
  ELSE LET len  == lens[j]
           free == c - (p % c)
       IN IF len < c /\ len > free
          THEN <<[k |-> "pad", pos |-> p, len |-> free], [k |-> "ins", pos |-> p + free, len |-> len]>> \o RefFitDef(lens, c, p + free + len, j + 1)
          ELSE <<[k |-> "ins", pos |-> p, len |-> len]>> \o RefFitDef(lens, c, p + len, j + 1)
RECURSIVE FitSeg(_, _, _, _, _)             \* [items, p]
FitSeg(lens, c, p, lo, hi) ==
  IF lo > hi THEN [items |-> <<>>, p |-> p]
  ELSE IF lo = hi
  THEN LET len  == lens[lo]
           free == c - (p % c)
       IN IF len < c /\ len > free
          THEN [items |-> <<[k |-> "pad", pos |-> p, len |-> free], [k |-> "ins", pos |-> p + free, len |-> len]>>, p |-> p + free + len]
          ELSE [items |-> <<[k |-> "ins", pos |-> p, len |-> len]>>, p |-> p + len]
  ELSE LET mid == (lo + hi) \div 2
           a == FitSeg(lens, c, p, lo, mid)
           b == FitSeg(lens, c, a.p, mid + 1, hi)
       IN [items |-> a.items \o b.items, p |-> b.p]
RefFit(lens, c, p, j) == FitSeg(lens, c, p, j, Len(lens)).items
=============================================================================
