------------------------------- MODULE AsmMech -------------------------------
(* The mechanism of one assemble call (DESIGN 3.4), shaped like the code:     *)
(*   assemble_all -> per line: str_to_instr (parse) ; check_len_or_resize     *)
(*   (room: fail on a caller buffer, grow the internal one) ; then            *)
(*   assemble | assemble_counting_chunks | assemble_with_chunk_fitting.       *)
(* Shared by the bounded model AsmApi.tla (scaled constants) and by the trace *)
(* specification ApiTrace.tla (the library's real constants), so there is one *)
(* source of truth for what a call does.                                      *)
EXTENDS Integers, Sequences, FiniteSets

CONSTANTS T,    \* reserve that must remain before an instruction is written (BUFFER_TOLERANCE, 20)
          Q     \* growth quantum of the library-managed buffer (MEM_BUFFER, 6000)

Step(k, pos, len, cap) == [k |-> k, pos |-> pos, len |-> len, cap |-> cap]

\* One instruction of length len at position p.  m: "A" plain, "F" fitting, "C" counting ; c chunk size ;
\* ext: caller-provided buffer ; n: padding rounds done.
\* Result: ok, new position p, new capacity, steps (what the hooks report, in order), items (final layout), brk
RECURSIVE One(_, _, _, _, _, _, _)
One(p, cap, len, m, c, ext, n) ==
  LET need == p + T > cap IN
  IF need /\ ext
  THEN [ok |-> FALSE, p |-> p, cap |-> cap, steps |-> <<>>, items |-> <<>>, brk |-> 0]
  ELSE LET cap2  == IF need THEN cap + Q ELSE cap
           gs    == IF need THEN <<Step("grow", cap, cap2, cap2)>> ELSE <<>>
           free  == IF m = "A" THEN 0 ELSE c - (p % c)
           trial == IF m = "F" THEN <<Step("trial", p, len, cap2)>> ELSE <<>>
       IN IF m = "F" /\ ~(len <= free \/ len >= c) /\ n < 2
          THEN LET r == One(p + free, cap2, len, m, c, ext, n + 1) IN
               [ok |-> r.ok, p |-> r.p, cap |-> r.cap,
                steps |-> gs \o trial \o <<Step("pad", p, free, cap2)>> \o r.steps,
                items |-> <<[k |-> "pad", pos |-> p, len |-> free]>> \o r.items, brk |-> 0]
          ELSE [ok |-> TRUE, p |-> p + len, cap |-> cap2,
                steps |-> gs \o trial \o <<Step("ins", p, len, cap2)>>,
                items |-> <<[k |-> "ins", pos |-> p, len |-> len]>>,
                brk |-> IF m = "C" /\ len > free THEN 1 ELSE 0]

\* A program: sequence of line lengths (0 = a line the parser rejects)
RECURSIVE RunFrom(_, _, _, _, _, _, _)
RunFrom(p, cap, lens, m, c, ext, j) ==
  IF j > Len(lens) THEN [ok |-> TRUE, p |-> p, cap |-> cap, steps |-> <<>>, items |-> <<>>, brk |-> 0, why |-> "", at |-> 0]
  ELSE IF lens[j] = 0 THEN [ok |-> FALSE, p |-> p, cap |-> cap, steps |-> <<>>, items |-> <<>>, brk |-> 0, why |-> "parse", at |-> j]
  ELSE LET a == One(p, cap, lens[j], m, c, ext, 0) IN
       IF ~a.ok THEN [ok |-> FALSE, p |-> p, cap |-> a.cap, steps |-> a.steps, items |-> a.items, brk |-> 0, why |-> "room", at |-> j]
       ELSE LET b == RunFrom(a.p, a.cap, lens, m, c, ext, j + 1) IN
            [ok |-> b.ok, p |-> b.p, cap |-> b.cap, steps |-> a.steps \o b.steps, items |-> a.items \o b.items,
             brk |-> a.brk + b.brk, why |-> b.why, at |-> b.at]
Run(p, cap, lens, m, c, ext) == RunFrom(p, cap, lens, m, c, ext, 1)

\* cells touched by the steps of a call
Written(steps) == UNION { {s.pos + k : k \in 0..(s.len - 1)} : s \in {steps[j] : j \in {x \in 1..Len(steps) : steps[x].k # "grow"}} }

(* ------------------------------ option setters -------------------------- *)
DefaultOpt == [mov |-> "SMART", swap |-> "NASM", nobase |-> "NASM"]      \* a new instance: SMART / NASM / NASM
\* documented effect of each option setter (man pages): values a setter does not document change nothing
SetMov(o, v)    == IF v \in {"STRICT", "NASM", "SMART"} THEN [o EXCEPT !.mov = v] ELSE o
SetSwap(o, v)   == IF v \in {"STRICT", "NASM"} THEN [o EXCEPT !.swap = v] ELSE o
SetNoBase(o, v) == IF v \in {"STRICT", "NASM"} THEN [o EXCEPT !.nobase = v] ELSE o
SetSib(o, v)    == SetNoBase(SetSwap(o, v), v)
SetAll(o, v)    == IF v = "SMART" THEN SetMov(o, v) ELSE IF v \in {"STRICT", "NASM"} THEN SetSib(SetMov(o, v), v) ELSE o
Apply(s, o, v)  == CASE s = "mov" -> SetMov(o, v) [] s = "swap" -> SetSwap(o, v) [] s = "nobase" -> SetNoBase(o, v)
                     [] s = "sib" -> SetSib(o, v) [] s = "all" -> SetAll(o, v)


(* ---------------------------- reference definitions ---------------------- *)
RECURSIVE Sum(_, _)
Sum(lens, j) == IF j = 0 THEN 0 ELSE lens[j] + Sum(lens, j - 1)
\* C14: instructions whose bytes, at their final positions, span two or more c-aligned chunks
RefBreaks(lens, c, start) ==
  IF c < 2 THEN 0
  ELSE Cardinality({j \in 1..Len(lens) : LET p == start + Sum(lens, j - 1) IN (p \div c) # ((p + lens[j] - 1) \div c)})
\* C13: the reference layout of a fitted program: padding exactly where the next instruction (shorter than c) would cross
RECURSIVE RefFit(_, _, _, _)
RefFit(lens, c, p, j) ==
  IF j > Len(lens) THEN <<>>
  ELSE LET len  == lens[j]
           free == c - (p % c)
       IN IF len < c /\ len > free
          THEN <<[k |-> "pad", pos |-> p, len |-> free], [k |-> "ins", pos |-> p + free, len |-> len]>> \o RefFit(lens, c, p + free + len, j + 1)
          ELSE <<[k |-> "ins", pos |-> p, len |-> len]>> \o RefFit(lens, c, p + len, j + 1)
=============================================================================
