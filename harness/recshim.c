/* recshim: records the public-API history of an UNMODIFIED client program (the repository's own test programs,
 * asmline) in the event format of spec/ApiTrace.tla, so that TLC can validate executions the repository already has.
 *
 * Linked into the client with  -Wl,--wrap=<every public function>  (see lib/rectrace.py); the client's calls land in
 * __wrap_X, which observes the instance before and after __real_X.  Calls the library makes internally are resolved
 * inside its own translation unit and are not seen twice.
 *
 * Output: ndjson appended to $REC_OUT (one write(2) per event, so an abrupt exit loses nothing).  The text of every
 * assemble call is logged in hex; lib/rectrace.py splits it into lines and learns their solo codes through linerun.
 * Observation is weaker than apirun's (one run, no second fill pattern, no canaries): det = true, outside = 0 for caller
 * buffers; changed cells come from a before/after snapshot of the buffer.
 */
#define _GNU_SOURCE
#include <assemblyline.h>
#include <instruction_data.h>
#include <verif_hooks.h>
#include <fcntl.h>
#include <stdarg.h>
#include <stdio.h>
#include <stdlib.h>
#include <string.h>
#include <unistd.h>

#define MAXI 4
#define OUTMAX 3000
#define MAXSTEPS 4096
#define SNAPMAX (4 << 20)

assemblyline_t __real_asm_create_instance(uint8_t *, int);
int __real_asm_destroy_instance(assemblyline_t);
int __real_assemble_str(assemblyline_t, const char *);
int __real_asm_assemble_str(assemblyline_t, const char *);
int __real_assemble_file(assemblyline_t, char *);
int __real_asm_assemble_file(assemblyline_t, char *);
int __real_assemble_string_counting_chunks(assemblyline_t, char *, int, int *);
int __real_asm_assemble_string_counting_chunks(assemblyline_t, char *, int, int *);
int __real_asm_assemble_file_counting_chunks(assemblyline_t, char *, int, int *);
void __real_asm_set_chunk_size(assemblyline_t, size_t);
void __real_asm_set_debug(assemblyline_t, bool);
void __real_asm_set_offset(assemblyline_t, int);
int __real_asm_create_bin_file(assemblyline_t, const char *);
void __real_asm_mov_imm(assemblyline_t, enum asm_opt);
void __real_asm_sib_index_base_swap(assemblyline_t, enum asm_opt);
void __real_asm_sib_no_base(assemblyline_t, enum asm_opt);
void __real_asm_sib(assemblyline_t, enum asm_opt);
void __real_asm_set_all(assemblyline_t, enum asm_opt);

static assemblyline_t slots[MAXI + 1];
static int fd = -2;
static char *ebuf; static size_t elen, ecap;

static void eput(const char *fmt, ...) {
  va_list ap;
  for (;;) {
    va_start(ap, fmt);
    int n = vsnprintf(ebuf + elen, ecap - elen, fmt, ap);
    va_end(ap);
    if (n >= 0 && (size_t)n < ecap - elen) { elen += n; return; }
    ecap = ecap ? ecap * 2 : 1 << 16;
    ebuf = realloc(ebuf, ecap);
  }
}
static void eflush(void) {
  if (fd == -2) {
    const char *p = getenv("REC_OUT");
    fd = p ? open(p, O_WRONLY | O_CREAT | O_APPEND, 0644) : -1;
  }
  if (fd >= 0 && elen) { ssize_t w = write(fd, ebuf, elen); (void)w; }
  elen = 0;
}
static int slot_of(assemblyline_t al) {
  for (int i = 1; i <= MAXI; i++) if (slots[i] == al && al) return i;
  return 0;
}
static unsigned hash30(const unsigned char *p, long n) {
  unsigned h = 2166136261u;
  for (long i = 0; i < n; i++) { h ^= p[i]; h *= 16777619u; }
  return (h ^ (h >> 15)) & 0x3fffffff;
}

/* ---- hook capture ---- */
struct step { int k; unsigned pos, len; int cap; };
static struct step steps[MAXSTEPS]; static int nsteps; static const void *cur_al;
static void on_emit(const void *al, unsigned pos, unsigned len, int cap, int kind) {
  if (al != cur_al) return;
  if (nsteps < MAXSTEPS) { steps[nsteps].k = kind; steps[nsteps].pos = pos; steps[nsteps].len = len; steps[nsteps].cap = cap; }
  nsteps++;
}
static void on_grow(const void *al, int old_len, int new_len, int moved) {
  if (al != cur_al) return;
  if (nsteps < MAXSTEPS) { steps[nsteps].k = 3 + (moved ? 1 : 0); steps[nsteps].pos = old_len; steps[nsteps].len = new_len; steps[nsteps].cap = new_len; }
  nsteps++;
}

/* ---- instance life cycle ---- */
assemblyline_t __wrap_asm_create_instance(uint8_t *buffer, int len) {
  assemblyline_t al = __real_asm_create_instance(buffer, len);
  int i = 0;
  for (int k = 1; k <= MAXI && !i; k++) if (!slots[k]) i = k;
  if (i) {
    if (al) slots[i] = al;
    eput("{\"e\":\"Create\",\"i\":%d,\"ext\":%s,\"cap\":%d,\"ret\":%d,\"inj\":false,\"calls\":\"\"}\n", i, buffer ? "true" : "false", buffer ? len : 0, al ? 0 : 1);
    eflush();
  }
  return al;
}
int __wrap_asm_destroy_instance(assemblyline_t al) {
  int i = slot_of(al);
  int r = __real_asm_destroy_instance(al);
  if (i) { slots[i] = NULL; eput("{\"e\":\"Destroy\",\"i\":%d,\"ret\":%d,\"inj\":false,\"calls\":\"\"}\n", i, r); eflush(); }
  return r;
}

/* ---- settings ---- */
static int optnum(enum asm_opt o) { return o == STRICT ? 0 : o == NASM ? 1 : o == SMART ? 2 : 7; }
#define SETTER(fn, name)                                                                                   \
  void __wrap_##fn(assemblyline_t al, enum asm_opt o) {                                                    \
    int i = slot_of(al);                                                                                   \
    __real_##fn(al, o);                                                                                    \
    if (i) { eput("{\"e\":\"Opt\",\"i\":%d,\"s\":\"%s\",\"v\":%d}\n", i, name, optnum(o)); eflush(); }      \
  }
SETTER(asm_mov_imm, "mov")
SETTER(asm_sib_index_base_swap, "swap")
SETTER(asm_sib_no_base, "nobase")
SETTER(asm_sib, "sib")
SETTER(asm_set_all, "all")
void __wrap_asm_set_chunk_size(assemblyline_t al, size_t c) {
  int i = slot_of(al);
  __real_asm_set_chunk_size(al, c);
  if (i) { eput("{\"e\":\"SetChunk\",\"i\":%d,\"c\":%d}\n", i, c > (1u << 30) ? (1 << 30) : (int)c); eflush(); }
}
void __wrap_asm_set_offset(assemblyline_t al, int k) {
  int i = slot_of(al);
  __real_asm_set_offset(al, k);
  if (i) { eput("{\"e\":\"SetOffset\",\"i\":%d,\"k\":%d}\n", i, k); eflush(); }
}
void __wrap_asm_set_debug(assemblyline_t al, bool b) {
  int i = slot_of(al);
  __real_asm_set_debug(al, b);
  if (i) { eput("{\"e\":\"SetDebug\",\"i\":%d,\"b\":%d}\n", i, b ? 1 : 0); eflush(); }
}

/* ---- assemble calls ---- */
enum { K_STR, K_OLDSTR, K_FILE, K_OLDFILE, K_CNT, K_OLDCNT, K_FILECNT };
static const char *KNAME[] = {"asm_assemble_str", "assemble_str", "asm_assemble_file", "assemble_file", "asm_assemble_string_counting_chunks",
                              "assemble_string_counting_chunks", "asm_assemble_file_counting_chunks"};
static unsigned char *snap;

static int observed_call(int kind, assemblyline_t al, const char *arg, int c, int *dest) {
  int i = slot_of(al);
  int isfile = kind == K_FILE || kind == K_OLDFILE || kind == K_FILECNT;
  int iscount = kind == K_CNT || kind == K_OLDCNT || kind == K_FILECNT;
  int ext = al->external, cap0 = al->buffer_len, off0 = al->offset;
  unsigned char *before = al->buffer;
  if (!snap) snap = malloc(SNAPMAX);
  long snaplen = ext ? cap0 : (off0 > 0 ? off0 : 0);
  if (snaplen > SNAPMAX) snaplen = SNAPMAX;
  if (snaplen < 0) snaplen = 0;
  if (i && before) memcpy(snap, before, snaplen);
  /* the text the call sees (string calls may alter their argument, so it is copied first; file contents are read after the call) */
  char *text = NULL;
  if (!isfile) text = strdup(arg ? arg : "");
  int destv = -7, *dp = dest ? dest : &destv;
  if (dest) destv = *dest;
  void (*se)(const void *, unsigned, unsigned, int, int) = al_verif.emit;
  void (*sg)(const void *, int, int, int) = al_verif.grow;
  al_verif.emit = on_emit; al_verif.grow = on_grow; cur_al = al; nsteps = 0;
  int ret;
  switch (kind) {
  case K_STR: ret = __real_asm_assemble_str(al, arg); break;
  case K_OLDSTR: ret = __real_assemble_str(al, arg); break;
  case K_FILE: ret = __real_asm_assemble_file(al, (char *)arg); break;
  case K_OLDFILE: ret = __real_assemble_file(al, (char *)arg); break;
  case K_CNT: ret = __real_asm_assemble_string_counting_chunks(al, (char *)arg, c, dp); break;
  case K_OLDCNT: ret = __real_assemble_string_counting_chunks(al, (char *)arg, c, dp); break;
  default: ret = __real_asm_assemble_file_counting_chunks(al, (char *)arg, c, dp); break;
  }
  cur_al = NULL; al_verif.emit = se; al_verif.grow = sg;
  if (!i) { free(text); return ret; }
  int nofile = 0;
  if (isfile) {
    FILE *f = fopen(arg, "rb");
    if (f) {
      size_t capt = 1 << 16, n = 0; text = malloc(capt);
      for (;;) { size_t r = fread(text + n, 1, capt - n - 1, f); n += r; if (r == 0) break; if (n + 1 >= capt) { capt *= 2; text = realloc(text, capt); } }
      text[n] = 0; fclose(f);
    } else { text = strdup(""); nofile = 1; }
  }
  int off1 = al->offset;
  unsigned char *after = al->buffer;
  int lo = -1, hi = -1, outside = 0;
  if (ext) { for (long q = 0; q < snaplen; q++) if (after[q] != snap[q]) { if (lo < 0) lo = (int)q; hi = (int)q; } }
  else { for (long q = 0; q < snaplen; q++) if (after[q] != snap[q]) { outside = 4; break; } }
  int end = ret == 0 ? off1 : (hi >= off0 ? hi + 1 : off0);
  int nout = -1;
  if (!ext && ret != 0) nout = -1;
  else if (end >= off0 && end - off0 <= OUTMAX && (!ext || end <= cap0)) nout = end - off0;
  int lastcap = nsteps > 0 ? steps[(nsteps < MAXSTEPS ? nsteps : MAXSTEPS) - 1].cap : -1;
  static const char *SK[] = {"ins", "pad", "trial", "grow", "growmoved"};
  eput("{\"e\":\"%s\",\"i\":%d,\"c\":%d,\"tag\":\"%s\",\"ret\":%d,\"off0\":%d,\"off1\":%d,\"dest\":%d,\"lo\":%d,\"hi\":%d,\"outside\":%d,\"det\":true,"
       "\"moved\":%s,\"hash\":%u,\"nsteps\":%d,\"lastcap\":%d,\"file\":%s,\"inj\":false,\"calls\":\"\",\"out\":[",
       iscount ? "Count" : "Asm", i, iscount ? c : 0, KNAME[kind], ret, off0, off1, iscount ? *dp : -7, lo, hi, outside,
       after != before ? "true" : "false", (ret == 0 && off1 >= 0) ? hash30(after, off1) : 0, nsteps, lastcap, isfile ? "true" : "false");
  for (int q = 0; q < nout; q++) eput("%s%d", q ? "," : "", after[off0 + q]);
  eput("],\"outok\":%s,\"steps\":[", nout >= 0 ? "true" : "false");
  int ns = nsteps < 48 ? nsteps : 48;
  for (int q = 0; q < ns; q++) eput("%s{\"k\":\"%s\",\"pos\":%u,\"len\":%u,\"cap\":%d}", q ? "," : "", SK[steps[q].k], steps[q].pos, steps[q].len, steps[q].cap);
  eput("],\"nofile\":%s,\"text\":\"", nofile ? "true" : "false");
  for (const unsigned char *p = (const unsigned char *)text; *p; p++) eput("%02x", *p);
  eput("\"}\n");
  eflush();
  free(text);
  return ret;
}
int __wrap_asm_assemble_str(assemblyline_t al, const char *s) { return observed_call(K_STR, al, s, 0, NULL); }
int __wrap_assemble_str(assemblyline_t al, const char *s) { return observed_call(K_OLDSTR, al, s, 0, NULL); }
int __wrap_asm_assemble_file(assemblyline_t al, char *f) { return observed_call(K_FILE, al, f, 0, NULL); }
int __wrap_assemble_file(assemblyline_t al, char *f) { return observed_call(K_OLDFILE, al, f, 0, NULL); }
int __wrap_asm_assemble_string_counting_chunks(assemblyline_t al, char *s, int c, int *d) { return observed_call(K_CNT, al, s, c, d); }
int __wrap_assemble_string_counting_chunks(assemblyline_t al, char *s, int c, int *d) { return observed_call(K_OLDCNT, al, s, c, d); }
int __wrap_asm_assemble_file_counting_chunks(assemblyline_t al, char *f, int c, int *d) { return observed_call(K_FILECNT, al, f, c, d); }

int __wrap_asm_create_bin_file(assemblyline_t al, const char *name) {
  int i = slot_of(al);
  int blen = al->offset;
  int r = __real_asm_create_bin_file(al, name);
  if (!i) return r;
  long flen = -1; unsigned fhash = 0;
  FILE *f = fopen(name, "rb");
  if (f) {
    unsigned char *fb = malloc(SNAPMAX);
    size_t n = fread(fb, 1, SNAPMAX, f);
    fclose(f);
    flen = (long)n; fhash = hash30(fb, (long)n);
    free(fb);
  }
  eput("{\"e\":\"BinFile\",\"i\":%d,\"ret\":%d,\"blen\":%d,\"bhash\":%u,\"flen\":%ld,\"fhash\":%u,\"inj\":false,\"calls\":\"\"}\n", i, r, blen,
       hash30(al->buffer, blen > 0 ? blen : 0), flen, fhash);
  eflush();
  return r;
}
