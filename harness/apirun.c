/* apirun: execute API histories (scripts) on the real library and record what it did (DESIGN 4.3).
 *
 * stdin: scripts
 *   S <id>                       start of script
 *   C <i> ext <cap> | C <i> int  asm_create_instance on a caller buffer of <cap> bytes / library-managed
 *   M <i>                        mirror: every later op on <i> is also applied to a twin on a 256 KiB caller buffer (C08)
 *   D <i>                        asm_destroy_instance
 *   O <i> <setter> <v>           setter mov|swap|nobase|sib|all, v = 0 STRICT 1 NASM 2 SMART, other = out of range
 *   K <i> <c>                    asm_set_chunk_size
 *   F <i> <k>                    asm_set_offset
 *   G <i> <b>                    asm_set_debug
 *   W <mov> <swap> <nobase> <fit> <off>   configuration of the fresh twin used by the next A/N op with flag t (C15)
 *   A <i> <flags> <tag> <hex>    asm_assemble_str            flags: '-' | 't' (also on a fresh twin)
 *   N <i> <c> <flags> <tag> <hex>  asm_assemble_string_counting_chunks
 *   P <i>                        probe the option state with four lines (offset restored)
 *   X <i>                        call the code at the buffer start and log rax
 *   E                            end of script
 * stdout: ndjson events; every script ends with {"e":"Reset"}; a crash gives {"e":"Fault",...} before it.
 *
 * A script is executed twice, on buffers pre-filled with 0xAA and 0x55, so that every written byte differs from at
 * least one fill; the per-call changed range [lo,hi] is the union.  Caller buffers end 32 canary bytes before a
 * PROT_NONE page and start after 64 canary bytes.
 */
#define _GNU_SOURCE
#include <assemblyline.h>
#include <verif_hooks.h>
#include <fcntl.h>
#include <signal.h>
#include <stdio.h>
#include <stdio_ext.h>
#include <sys/resource.h>
#include <stdlib.h>
#include <string.h>
#include <sys/mman.h>
#include <sys/wait.h>
#include <unistd.h>

#include <errno.h>
#include <sys/stat.h>
#define MAXI 4
#define MAXOPS 160
#define MAXSTEPS 4096
#define PRE 64
#define POST 32
#define PAGE 4096
#define MIRCAP (256 * 1024)
#define OUTMAX 12000

/* ---- OS-call interception (link with -Wl,--wrap=...): counts the calls the LIBRARY makes and fails the armed one ---- */
enum { W_MALLOC, W_MMAP, W_MREMAP, W_MUNMAP, W_OPEN, W_FSTAT, W_READ, W_CLOSE, W_FOPEN, W_FWRITE, W_FCLOSE, W_FREE, W_N };
static const char *WNAME[W_N] = {"malloc", "mmap", "mremap", "munmap", "open", "fstat", "read", "close", "fopen", "fwrite", "fclose", "free"};
static int in_lib, arm_call = -1, arm_nth, arm_short, arm_errno, fired;
static int arm2_call = -1, arm2_nth, arm_eof;   /* a second refusal within the same API call; read: end of file instead of an error */
#define ERR(dflt) (arm_errno ? arm_errno : (dflt))
static int seen[W_N];
static char callog[256]; static int ncallog;
static int hit(int w) {
  if (!in_lib) return 0;
  if (ncallog < 250) callog[ncallog++] = (char)('a' + w);
  seen[w]++;
  if (w == arm_call && seen[w] == arm_nth) { fired = 1; arm_call = -1; return 1; }
  if (w == arm2_call && seen[w] == arm2_nth) { fired = 1; arm2_call = -1; return 1; }
  return 0;
}
void *__real_malloc(size_t); void __real_free(void *);
void *__real_mmap(void *, size_t, int, int, int, off_t); void *__real_mremap(void *, size_t, size_t, int, ...);
int __real_munmap(void *, size_t); int __real_open(const char *, int, ...); int __real_fstat(int, struct stat *);
ssize_t __real_read(int, void *, size_t); int __real_close(int);
FILE *__real_fopen(const char *, const char *); size_t __real_fwrite(const void *, size_t, size_t, FILE *); int __real_fclose(FILE *);
void *__wrap_malloc(size_t n) { if (hit(W_MALLOC)) { errno = ENOMEM; return NULL; } return __real_malloc(n); }
void __wrap_free(void *p) { hit(W_FREE); __real_free(p); }
void *__wrap_mmap(void *a, size_t l, int p, int f, int fd, off_t o) { if (hit(W_MMAP)) { errno = ENOMEM; return MAP_FAILED; } return __real_mmap(a, l, p, f, fd, o); }
void *__wrap_mremap(void *a, size_t o, size_t n, int f, ...) { if (hit(W_MREMAP)) { errno = ENOMEM; return MAP_FAILED; } return __real_mremap(a, o, n, f); }
int __wrap_munmap(void *a, size_t l) { if (hit(W_MUNMAP)) { errno = EINVAL; return -1; } return __real_munmap(a, l); }
int __wrap_open(const char *p, int fl, ...) { if (hit(W_OPEN)) { errno = ERR(EMFILE); return -1; } return __real_open(p, fl, 0); }
int __wrap_fstat(int fd, struct stat *st) { if (hit(W_FSTAT)) { errno = ERR(EIO); return -1; } return __real_fstat(fd, st); }
/* ("read-eof": the file ends here although fstat announced more - truncated meanwhile, or a sysfs attribute) */
static int eof_now;
ssize_t __wrap_read(int fd, void *b, size_t n) {
  if (in_lib && eof_now) return 0;                 /* the file has ended: it stays ended */
  if (hit(W_READ)) { if (arm_eof) { eof_now = 1; return 0; } errno = ERR(EIO); return -1; }
  return __real_read(fd, b, n);
}
int __wrap_close(int fd) { if (hit(W_CLOSE)) { __real_close(fd); errno = ERR(EIO); return -1; } return __real_close(fd); }
FILE *__wrap_fopen(const char *p, const char *m) { if (hit(W_FOPEN)) { errno = ERR(EACCES); return NULL; } return __real_fopen(p, m); }
size_t __wrap_fwrite(const void *b, size_t sz, size_t n, FILE *f) {
  if (f != stderr && f != stdout && hit(W_FWRITE)) { errno = ERR(ENOSPC); if (arm_short && n > 1) return __real_fwrite(b, sz, n / 2, f); return 0; }
  return __real_fwrite(b, sz, n, f);
}
/* a failing fclose is a failing flush: what stdio still buffers never reaches the file */
int __wrap_fclose(FILE *f) { if (hit(W_FCLOSE)) { __fpurge(f); __real_fclose(f); errno = ERR(ENOSPC); return EOF; } return __real_fclose(f); }
/* (errno is the caller's: every library call starts with a stale ERANGE in it) */
static int lib_calls;
#define LIB(x) do { in_lib = 1; errno = (lib_calls % 3 == 0) ? ERANGE : (lib_calls % 3 == 1) ? EINTR : EAGAIN; lib_calls++; x; in_lib = 0; } while (0)

struct step { int k; unsigned pos, len; int cap; };
struct res {
  int used, ret, off0, off1, dest, lo, hi, outside, nout, moved, cap_after;
  unsigned char out[OUTMAX];
  unsigned hash; int hlen;
  int nsteps; struct step steps[48]; int steps_total; int lastcap;
  int twin, tret, toff1, tdest, tnout; unsigned char tout[OUTMAX]; unsigned thash;
  int mret, moff1; unsigned mhash; int mir;
  int nprobe; unsigned char probe[4][16]; int plen[4];
  unsigned char rax[8];
  int inj; char calls[64]; int skipped;
  long flen; unsigned fhash, bhash; int blen;
};
struct op { char kind; int i, a, b, c, d, e; long long wide; char flags[8]; char tag[32]; char s[40]; char *text; };

struct slot { assemblyline_t al; int ext, cap, hiw, gapped; unsigned char *buf, *region; size_t rlen; assemblyline_t mir; unsigned char *mbuf; };

static struct step cur_steps[MAXSTEPS];
static int ncur;
static const void *cur_al;
static void on_emit(const void *al, unsigned pos, unsigned len, int cap, int kind) {
  if (al != cur_al) return;
  if (ncur < MAXSTEPS) { cur_steps[ncur].k = kind; cur_steps[ncur].pos = pos; cur_steps[ncur].len = len; cur_steps[ncur].cap = cap; }
  ncur++;
}
static void on_grow(const void *al, int old_len, int new_len, int moved) {
  if (al != cur_al) return;
  if (ncur < MAXSTEPS) { cur_steps[ncur].k = 3 + (moved ? 1 : 0); cur_steps[ncur].pos = old_len; cur_steps[ncur].len = new_len; cur_steps[ncur].cap = new_len; }
  ncur++;
}

static unsigned hash30(const unsigned char *p, int n) {
  unsigned h = 2166136261u;
  for (int i = 0; i < n; i++) { h ^= p[i]; h *= 16777619u; }
  return (h ^ (h >> 15)) & 0x3fffffff;
}

static unsigned char *ext_region(int cap, unsigned char fill, unsigned char **region, size_t *rlen) {
  size_t body = PRE + (size_t)cap + POST;
  size_t pages = (body + PAGE - 1) / PAGE;
  size_t len = (pages + 1) * PAGE;
  unsigned char *r = mmap(NULL, len, PROT_READ | PROT_WRITE | PROT_EXEC, MAP_ANONYMOUS | MAP_PRIVATE, -1, 0);
  mprotect(r + pages * PAGE, PAGE, PROT_NONE);
  unsigned char *buf = r + pages * PAGE - POST - cap;
  memset(r, 0xC3 ^ fill, pages * PAGE);
  memset(buf, fill, cap);
  *region = r; *rlen = len;
  return buf;
}
/* the same, but the caller buffer starts on a page boundary of its own private mapping (the README's mmap usage): canary page in
 * front, canary bytes behind up to the end of the mapping's last page */
static unsigned char *ext_region_aligned(int cap, unsigned char fill, unsigned char **region, size_t *rlen) {
  size_t pages = ((size_t)cap + POST + PAGE - 1) / PAGE;
  if (pages == 0) pages = 1;
  size_t len = (pages + 1) * PAGE;
  unsigned char *r = mmap(NULL, len, PROT_READ | PROT_WRITE | PROT_EXEC, MAP_ANONYMOUS | MAP_PRIVATE, -1, 0);
  memset(r, 0xC3 ^ fill, len);
  unsigned char *buf = r + PAGE;
  memset(buf, fill, cap);
  *region = r; *rlen = len;
  return buf;
}
static int canary_bad(struct slot *s, unsigned char fill) {
  if (!s->ext) return 0;
  for (unsigned char *p = s->region; p < s->buf; p++) if (*p != (0xC3 ^ fill)) return 1;
  for (int k = 0; k < POST; k++) if (s->buf[s->cap + k] != (0xC3 ^ fill)) return 1;
  return 0;
}

static enum asm_opt optv(int v) { return v == 0 ? STRICT : v == 1 ? NASM : v == 2 ? SMART : (enum asm_opt)v; } /* undocumented values are passed as they are */
static void setter(assemblyline_t al, const char *s, int v) {
  if (!strcmp(s, "mov")) asm_mov_imm(al, optv(v));
  else if (!strcmp(s, "swap")) asm_sib_index_base_swap(al, optv(v));
  else if (!strcmp(s, "nobase")) asm_sib_no_base(al, optv(v));
  else if (!strcmp(s, "sib")) asm_sib(al, optv(v));
  else if (!strcmp(s, "all")) asm_set_all(al, optv(v));
}

static const char *PROBES[4] = {"mov rax, 0x5", "mov rax, 0x0000000000000005", "lea rcx, [rax+rsp]", "lea rcx, [2*rax]"};

/* one pass over the script with the given fill; results into r[] */
static void run_pass(struct op *ops, int nops, unsigned char fill, struct res *r) {
  struct slot sl[MAXI + 1];
  memset(sl, 0, sizeof sl);
  int tw[5] = {2, 1, 1, 0, 0}, have_tw = 0;
  static unsigned char snap[MIRCAP];
  for (int k = 0; k < nops; k++) {
    struct op *o = &ops[k];
    struct res *x = &r[k];
    memset(x, 0, sizeof *x);
    x->used = 1; x->lo = x->hi = -1;
    struct slot *s = (o->i >= 1 && o->i <= MAXI) ? &sl[o->i] : NULL;
    fired = 0; ncallog = 0; eof_now = 0;
    if (s && !s->al && strchr("DOKFGPXANTUBM", o->kind)) { x->skipped = 1; continue; }
    if (o->kind == 'L' || o->kind == 'J') s = NULL;
    switch (o->kind) {
    case 'C':
      if (o->a) { s->ext = 1; s->cap = o->b; s->buf = o->a == 2 ? ext_region_aligned(o->b, fill, &s->region, &s->rlen) : ext_region(o->b, fill, &s->region, &s->rlen); LIB(s->al = asm_create_instance(s->buf, o->b)); }
      else { s->ext = 0; s->cap = 0; s->hiw = 0; s->gapped = 0; LIB(s->al = asm_create_instance(NULL, o->c));   /* (the length is documented as irrelevant without a buffer) */ s->buf = s->al ? asm_get_code(s->al) : NULL; }
      x->ret = s->al ? 0 : 1;
      break;
    case 'Z':
      arm_call = -1; arm_short = 0; arm_errno = 0; arm2_call = -1; arm_eof = 0; eof_now = 0;
      { char nm[40]; strcpy(nm, o->s);         /* (parsed on a copy: the script runs twice) */
        char *plus = strchr(nm, '+');           /* "<call>+<call2>": both refused (the nth of each) within the same API call */
        if (plus) { *plus = 0; for (int w = 0; w < W_N; w++) if (!strcmp(plus + 1, WNAME[w])) arm2_call = w; arm2_nth = o->b > 0 ? o->b : 1; }
        char *dash = strstr(nm, "-eintr"); if (dash) { *dash = 0; arm_errno = EINTR; }   /* "<call>-eintr": refused with errno EINTR */
        dash = strstr(nm, "-eof"); if (dash) { *dash = 0; arm_eof = 1; }
        for (int w = 0; w < W_N; w++) if (!strcmp(nm, WNAME[w])) arm_call = w;
        if (!strcmp(nm, "fwrite-short")) { arm_call = W_FWRITE; arm_short = 1; } }
      arm_nth = o->a; memset(seen, 0, sizeof seen);
      break;
    case 'B': {
      int blen = asm_get_offset(s->al);
      LIB(x->ret = asm_create_bin_file(s->al, o->text));
      x->blen = blen; x->bhash = hash30(asm_get_code(s->al), blen > 0 ? blen : 0);
      x->flen = -1;
      FILE *f = __real_fopen(o->text, "rb");
      if (f) {
        static unsigned char fb[MIRCAP];
        size_t n = fread(fb, 1, sizeof fb, f);
        __real_fclose(f);
        x->flen = (long)n; x->fhash = hash30(fb, (int)n);
        unlink(o->text);
      }
      break; }
    case 'M': {
      unsigned char *reg; size_t rl;
      s->mbuf = ext_region(MIRCAP - PRE - POST - PAGE, fill, &reg, &rl);
      s->mir = asm_create_instance(s->mbuf, MIRCAP - PRE - POST - PAGE);
      break; }
    case 'D': LIB(x->ret = asm_destroy_instance(s->al)); if (s->mir) asm_destroy_instance(s->mir); if (s->ext) munmap(s->region, s->rlen); memset(s, 0, sizeof *s); break;
    case 'O': setter(s->al, o->s, o->a); if (s->mir) setter(s->mir, o->s, o->a); break;
    case 'K': asm_set_chunk_size(s->al, (size_t)o->wide); if (s->mir) asm_set_chunk_size(s->mir, (size_t)o->wide); break;
    case 'F': asm_set_offset(s->al, o->a); if (s->mir) asm_set_offset(s->mir, o->a); break;
    case 'G': asm_set_debug(s->al, o->a); break;
    case 'Q': {
      /* occupy the address space behind (and a little in front of) the library-managed buffer, so that its next growth cannot happen in
         place: the kernel has to MOVE the mapping (addresses the library cached before the growth are dead afterwards) */
      unsigned char *b = asm_get_code(s->al);
      uintptr_t base = (uintptr_t)b & ~(uintptr_t)(PAGE - 1);
      for (int pg = 1; pg <= 256; pg++)
        mmap((void *)(base + (uintptr_t)pg * PAGE), PAGE, PROT_NONE, MAP_PRIVATE | MAP_ANONYMOUS | MAP_FIXED_NOREPLACE, -1, 0);
      break; }
    case 'J': if (o->a == 2) { if (setreuid(65534, 0)) { } }   /* real user nobody, effective user unchanged */
              else if (setresgid(65534, 65534, 65534) || setresuid(65534, 65534, 65534)) { } break;   /* the rest of the script runs as an unprivileged user */
    case 'L': { struct rlimit rl; getrlimit(RLIMIT_NOFILE, &rl); rl.rlim_cur = (rlim_t)o->a; setrlimit(RLIMIT_NOFILE, &rl); break; }   /* descriptor limit of this script's process */
    case 'W': tw[0] = o->a; tw[1] = o->b; tw[2] = o->c; tw[3] = o->d; tw[4] = o->e; have_tw = 1; break;
    case 'P': {
      int save = asm_get_offset(s->al);
      x->nprobe = 4;
      for (int q = 0; q < 4; q++) {
        /* probe at the buffer start so that the remaining room does not matter; the offset is restored */
        asm_set_offset(s->al, 0);
        int rr = asm_assemble_str(s->al, PROBES[q]);
        int o1 = asm_get_offset(s->al);
        x->plen[q] = (rr == 0 && o1 >= 0 && o1 <= 16) ? o1 : -1;
        if (x->plen[q] > 0) memcpy(x->probe[q], (unsigned char *)asm_get_code(s->al), x->plen[q]);
      }
      asm_set_offset(s->al, save);
      break; }
    case 'X': {
      unsigned long (*f)(void) = (unsigned long (*)(void))asm_get_code(s->al);
      unsigned long v = f();
      memcpy(x->rax, &v, 8);
      break; }
    case 'A': case 'N': case 'T': case 'U': {
      int isfile = o->kind == 'T' || o->kind == 'U';
      int iscount = o->kind == 'N' || o->kind == 'U';
      int off0 = asm_get_offset(s->al);
      unsigned char *before = asm_get_code(s->al);
      int scap = s->ext ? s->cap : 0;
      /* snapshot of the caller buffer for the changed-range diff and for the fresh twin */
      int snaplen = s->ext ? s->cap : 0;
      if (snaplen > MIRCAP) snaplen = MIRCAP;
      if (s->ext) memcpy(snap, s->buf, snaplen);
      static unsigned char isnap[MIRCAP]; int isnaplen = 0;
      /* (only what calls have emitted so far: an offset set beyond that lies over bytes the library never wrote, possibly beyond its capacity) */
      if (!s->ext) { isnaplen = off0 > 0 && off0 < MIRCAP ? off0 : 0; if (isnaplen > s->hiw) isnaplen = s->hiw; memcpy(isnap, before, isnaplen); }
      if (off0 > s->hiw) s->gapped = 1;   /* the offset was set beyond everything emitted so far: the bytes in between are nobody's (the mirror comparison below then covers the call's own range only) */
      x->off0 = off0; x->dest = -7;
      cur_al = s->al; ncur = 0;
      char *txt = strdup(o->text);
      int dep = strchr(o->flags, 'd') != NULL;   /* 'd': through the deprecated alias of the entry point (same contract) */
      if (strchr(o->flags, 'c')) close(0);       /* 'c': descriptor 0 is free (a process started with stdin closed): open() will return 0 */
      int *dp = strchr(o->flags, 'z') ? NULL : &x->dest;   /* 'z': the caller passes no place for the count */
      if (o->kind == 'N') { if (dep) LIB(x->ret = assemble_string_counting_chunks(s->al, txt, o->a, dp)); else LIB(x->ret = asm_assemble_string_counting_chunks(s->al, txt, o->a, dp)); }
      else if (o->kind == 'A') { if (dep) LIB(x->ret = assemble_str(s->al, txt)); else LIB(x->ret = asm_assemble_str(s->al, txt)); }
      else if (o->kind == 'U') LIB(x->ret = asm_assemble_file_counting_chunks(s->al, txt, o->a, dp));
      else { if (dep) LIB(x->ret = assemble_file(s->al, txt)); else LIB(x->ret = asm_assemble_file(s->al, txt)); }
      __real_free(txt);
      /* the string twin of a file call assembles the file's contents read by the harness */
      char *content = NULL;
      if (isfile) {
        FILE *cf = __real_fopen(o->text, "rb");
        if (cf) { static char cbuf[1 << 20]; size_t cn = fread(cbuf, 1, sizeof cbuf - 1, cf); cbuf[cn] = 0; __real_fclose(cf); content = cbuf; }
      }
      const char *twtext = isfile ? content : o->text;
      cur_al = NULL;
      x->off1 = asm_get_offset(s->al);
      if (x->ret == 0 && x->off1 > off0 && x->off1 > s->hiw) s->hiw = x->off1;   /* (a call that emitted nothing has not touched - nor grown the buffer to - its offset) */
      unsigned char *after = dep ? asm_get_buffer(s->al) : asm_get_code(s->al);
      x->moved = after != before;
      s->buf = s->ext ? s->buf : after;
      x->steps_total = ncur;
      x->lastcap = ncur > 0 ? cur_steps[(ncur < MAXSTEPS ? ncur : MAXSTEPS) - 1].cap : -1;
      x->nsteps = ncur < 48 ? ncur : 48;
      memcpy(x->steps, cur_steps, x->nsteps * sizeof(struct step));
      /* a step that lies outside its capacity is kept even when the list is truncated */
      for (int q = 48; q < ncur && q < MAXSTEPS; q++)
        if (cur_steps[q].k <= 2 && (long)cur_steps[q].pos + cur_steps[q].len > cur_steps[q].cap) { x->steps[47] = cur_steps[q]; break; }
      if (s->ext) {
        for (int q = 0; q < snaplen; q++) if (s->buf[q] != snap[q]) { if (x->lo < 0) x->lo = q; x->hi = q; }
        x->outside = canary_bad(s, fill);
      } else {
        /* library-managed buffer: earlier bytes must survive growth */
        for (int q = 0; q < isnaplen; q++) if (after[q] != isnap[q]) { x->outside = 4; break; }
      }
      int end = x->ret == 0 ? x->off1 : (x->hi >= off0 ? x->hi + 1 : off0);
      if (x->ret == 0 && x->off1 >= off0) {
        x->hlen = x->off1; x->hash = s->gapped ? hash30(after + off0, x->off1 - off0) : hash30(after, x->off1 > 0 ? x->off1 : 0);
      }
      if (!s->ext && x->ret != 0) x->nout = -1; /* what a failed call wrote into a library-managed buffer is not diffed */
      else if (end >= off0 && end - off0 <= OUTMAX && (!s->ext || end <= s->cap)) { x->nout = end - off0; memcpy(x->out, after + off0, x->nout); }
      else x->nout = -1;
      if (s->mir) {
        char *t2 = strdup(twtext ? twtext : ""); int d2 = 0;
        x->mir = 1;
        x->mret = iscount ? asm_assemble_string_counting_chunks(s->mir, t2, o->a, &d2) : asm_assemble_str(s->mir, t2);
        free(t2);
        x->moff1 = asm_get_offset(s->mir);
        x->mhash = x->mret == 0 && x->moff1 >= 0 ? (s->gapped ? (x->moff1 >= off0 ? hash30(s->mbuf + off0, x->moff1 - off0) : 0) : hash30(s->mbuf, x->moff1)) : 0;
      }
      if (strchr(o->flags, 't') && have_tw && s->ext && twtext) {
        /* fresh twin: same geometry, same prior contents, configured from the script */
        unsigned char *treg; size_t trl;
        unsigned char *tb = ext_region(s->cap, fill, &treg, &trl);
        memcpy(tb, snap, snaplen);
        assemblyline_t t = asm_create_instance(tb, s->cap);
        asm_mov_imm(t, optv(tw[0])); asm_sib_index_base_swap(t, optv(tw[1])); asm_sib_no_base(t, optv(tw[2]));
        if (tw[3] >= 2) asm_set_chunk_size(t, tw[3]);
        asm_set_offset(t, tw[4]);
        char *t3 = strdup(twtext);
        x->twin = 1; x->tdest = -7;
        x->tret = iscount ? asm_assemble_string_counting_chunks(t, t3, o->a, &x->tdest) : asm_assemble_str(t, t3);
        free(t3);
        x->toff1 = asm_get_offset(t);
        int tend = x->tret == 0 ? x->toff1 : off0;
        /* compare what the twin wrote from off0 on: bytes [off0, max written) */
        int thi = -1;
        for (int q = 0; q < snaplen; q++) if (tb[q] != snap[q]) thi = q;
        if (x->tret != 0) tend = thi >= off0 ? thi + 1 : off0;
        if (tend >= tw[4] && tend - tw[4] <= OUTMAX && tend <= s->cap) { x->tnout = tend - tw[4]; memcpy(x->tout, tb + tw[4], x->tnout); } else x->tnout = -1;
        asm_destroy_instance(t);
        munmap(treg, trl);
      }
      x->cap_after = scap;
      break; }
    default: break;
    }
    x->inj = fired;
    { int nc = ncallog < 63 ? ncallog : 63; memcpy(x->calls, callog, nc); x->calls[nc] = 0; }
  }
  for (int i = 1; i <= MAXI; i++) if (sl[i].al) { asm_destroy_instance(sl[i].al); if (sl[i].mir) asm_destroy_instance(sl[i].mir); }
}

static void pr_bytes(const unsigned char *p, int n) {
  putchar('[');
  for (int i = 0; i < n; i++) printf("%s%d", i ? "," : "", p[i]);
  putchar(']');
}

static void print_events(const char *sid, struct op *ops, int nops, struct res *a, struct res *b) {
  static const char *SK[] = {"ins", "pad", "trial", "grow", "growmoved"};
  for (int k = 0; k < nops; k++) {
    struct op *o = &ops[k];
    struct res *x = &a[k], *y = &b[k];
    switch (o->kind) {
    case 'C': printf("{\"e\":\"Create\",\"s\":\"%s\",\"i\":%d,\"ext\":%s,\"cap\":%d,\"ret\":%d,\"inj\":%s,\"calls\":\"%s\"}\n", sid, o->i, o->a ? "true" : "false", o->a ? o->b : 0, x->ret, x->inj ? "true" : "false", x->calls); break;
    case 'Z': printf("{\"e\":\"Arm\",\"call\":\"%s\",\"nth\":%d}\n", o->s, o->a); break;
    case 'B': if (x->skipped) { printf("{\"e\":\"Skipped\",\"i\":%d}\n", o->i); break; }
      printf("{\"e\":\"BinFile\",\"i\":%d,\"ret\":%d,\"blen\":%d,\"bhash\":%u,\"flen\":%ld,\"fhash\":%u,\"inj\":%s,\"calls\":\"%s\"}\n", o->i, x->ret, x->blen, x->bhash, x->flen, x->fhash, x->inj ? "true" : "false", x->calls); break;
    case 'M': if (x->skipped) { printf("{\"e\":\"Skipped\",\"i\":%d}\n", o->i); break; }
      printf("{\"e\":\"Mirror\",\"i\":%d}\n", o->i); break;
    case 'D': if (x->skipped) { printf("{\"e\":\"Skipped\",\"i\":%d}\n", o->i); break; }
      printf("{\"e\":\"Destroy\",\"i\":%d,\"ret\":%d,\"inj\":%s,\"calls\":\"%s\"}\n", o->i, x->ret, x->inj ? "true" : "false", x->calls); break;
    case 'O': if (x->skipped) { printf("{\"e\":\"Skipped\",\"i\":%d}\n", o->i); break; }
      printf("{\"e\":\"Opt\",\"i\":%d,\"s\":\"%s\",\"v\":%d}\n", o->i, o->s, o->a); break;
    case 'K': if (x->skipped) { printf("{\"e\":\"Skipped\",\"i\":%d}\n", o->i); break; }
      printf("{\"e\":\"SetChunk\",\"i\":%d,\"c\":%d}\n", o->i, o->a); break;
    case 'F': if (x->skipped) { printf("{\"e\":\"Skipped\",\"i\":%d}\n", o->i); break; }
      printf("{\"e\":\"SetOffset\",\"i\":%d,\"k\":%d}\n", o->i, o->a); break;
    case 'G': if (x->skipped) { printf("{\"e\":\"Skipped\",\"i\":%d}\n", o->i); break; }
      printf("{\"e\":\"SetDebug\",\"i\":%d,\"b\":%d}\n", o->i, o->a); break;
    case 'W': break;
    case 'L': case 'J': case 'Q': printf("{\"e\":\"Skipped\",\"i\":0}\n"); break;
    case 'P':
      if (x->skipped) { printf("{\"e\":\"Skipped\",\"i\":%d}\n", o->i); break; }
      printf("{\"e\":\"Probe\",\"i\":%d,\"codes\":[", o->i);
      for (int q = 0; q < 4; q++) { if (q) putchar(','); pr_bytes(x->probe[q], x->plen[q] > 0 ? x->plen[q] : 0); }
      printf("]}\n");
      break;
    case 'X': if (x->skipped) { printf("{\"e\":\"Skipped\",\"i\":%d}\n", o->i); break; }
      printf("{\"e\":\"Exec\",\"i\":%d,\"rax\":", o->i); pr_bytes(x->rax, 8); printf("}\n"); break;
    case 'A': case 'N': case 'T': case 'U': {
      if (x->skipped) { printf("{\"e\":\"Skipped\",\"i\":%d}\n", o->i); break; }
      int lo = x->lo, hi = x->hi;
      if (y->lo >= 0 && (lo < 0 || y->lo < lo)) lo = y->lo;
      if (y->hi > hi) hi = y->hi;
      int det = x->ret == y->ret && x->off1 == y->off1 && x->dest == y->dest && x->nout == y->nout &&
                (x->nout <= 0 || !memcmp(x->out, y->out, x->nout)) && x->steps_total == y->steps_total;
      int outside = x->outside ? x->outside : y->outside;
      printf("{\"e\":\"%s\",\"i\":%d,\"c\":%d,\"tag\":\"%s\",\"ret\":%d,\"off0\":%d,\"off1\":%d,\"dest\":%d,\"lo\":%d,\"hi\":%d,"
             "\"outside\":%d,\"det\":%s,\"moved\":%s,\"hash\":%u,\"nsteps\":%d,\"lastcap\":%d,\"file\":%s,\"inj\":%s,\"calls\":\"%s\",\"nulld\":%s,\"out\":",
             (o->kind == 'N' || o->kind == 'U') ? "Count" : "Asm", o->i, (o->kind == 'N' || o->kind == 'U') ? o->a : 0, o->tag, x->ret, x->off0, x->off1, x->dest, lo, hi,
             outside, det ? "true" : "false", x->moved ? "true" : "false", x->hash, x->steps_total, x->lastcap,
             (o->kind == 'T' || o->kind == 'U') ? "true" : "false", x->inj ? "true" : "false", x->calls, strchr(o->flags, 'z') ? "true" : "false");
      pr_bytes(x->out, x->nout > 0 ? x->nout : 0);
      printf(",\"outok\":%s,\"steps\":[", x->nout >= 0 ? "true" : "false");
      for (int q = 0; q < x->nsteps; q++)
        printf("%s{\"k\":\"%s\",\"pos\":%u,\"len\":%u,\"cap\":%d}", q ? "," : "", SK[x->steps[q].k], x->steps[q].pos, x->steps[q].len, x->steps[q].cap);
      printf("]");
      if (x->mir) printf(",\"mirror\":{\"ret\":%d,\"off1\":%d,\"hash\":%u}", x->mret, x->moff1, x->mhash);
      if (x->twin) {
        printf(",\"twin\":{\"ret\":%d,\"off1\":%d,\"dest\":%d,\"outok\":%s,\"out\":", x->tret, x->toff1, x->tdest, x->tnout >= 0 ? "true" : "false");
        pr_bytes(x->tout, x->tnout > 0 ? x->tnout : 0);
        printf("}");
      }
      printf("}\n");
      break; }
    }
  }
}

int main(void) {
  al_verif.emit = on_emit;
  al_verif.grow = on_grow;
  if (!freopen("/dev/null", "w", stderr)) return 2;
  static struct op ops[MAXOPS];
  static struct res ra[MAXOPS], rb[MAXOPS];
  char *ln = NULL; size_t lsz = 0; ssize_t n;
  char sid[64] = "";
  int nops = 0, timeouts = 0;
  while ((n = getline(&ln, &lsz, stdin)) > 0) {
    if (ln[n - 1] == '\n') ln[--n] = 0;
    if (ln[0] == 'S') { sscanf(ln + 2, "%63s", sid); nops = 0; continue; }
    if (ln[0] == 'E' && timeouts >= 3) {
      /* three scripts of this batch already ran into the watchdog: the remaining ones are not run (the hangs are reported, the batch stays bounded) */
      printf("{\"e\":\"Skipped\",\"i\":0}\n{\"e\":\"Reset\",\"s\":\"%s\"}\n", sid);
      for (int k = 0; k < nops; k++) { free(ops[k].text); ops[k].text = NULL; }
      nops = 0;
      continue;
    }
    if (ln[0] == 'E') {
      fflush(stdout);
      pid_t pid = fork();
      if (pid == 0) {
        /* the debug output of the library goes to stdout: silence it while the script runs */
        int keep = dup(1);
        int nul = open("/dev/null", 1);
        dup2(nul, 1);
        alarm(6);
        run_pass(ops, nops, 0xAA, ra);
        run_pass(ops, nops, 0x55, rb);
        alarm(0);
        fflush(stdout);
        dup2(keep, 1);
        print_events(sid, ops, nops, ra, rb);
        fflush(stdout);
        _exit(0);
      }
      int st = 0;
      waitpid(pid, &st, 0);
      if (WIFSIGNALED(st) && WTERMSIG(st) == SIGALRM) timeouts++;
      if (!(WIFEXITED(st) && WEXITSTATUS(st) == 0)) {
        /* replay up to the crash is not available: report the script as faulted */
        printf("{\"e\":\"Fault\",\"s\":\"%s\",\"sig\":%d,\"exit\":%d}\n", sid, WIFSIGNALED(st) ? WTERMSIG(st) : 0, WIFEXITED(st) ? WEXITSTATUS(st) : -1);
      }
      printf("{\"e\":\"Reset\",\"s\":\"%s\"}\n", sid);
      for (int k = 0; k < nops; k++) { free(ops[k].text); ops[k].text = NULL; }
      nops = 0;
      continue;
    }
    if (nops >= MAXOPS) continue;
    struct op *o = &ops[nops];
    memset(o, 0, sizeof *o);
    o->kind = ln[0];
    static char hex[1 << 22];
    switch (ln[0]) {
    case 'C': { char kind[8]; int cap = 0; if (sscanf(ln + 2, "%d %7s %d", &o->i, kind, &cap) >= 2) { o->a = !strcmp(kind, "ext") ? 1 : !strcmp(kind, "exta") ? 2 : 0; o->b = cap; o->c = o->a ? 0 : cap; } break; }   /* "int N": asm_create_instance(NULL, N) */
    case 'M': case 'D': case 'P': case 'X': sscanf(ln + 2, "%d", &o->i); break;
    case 'O': sscanf(ln + 2, "%d %15s %d", &o->i, o->s, &o->a); break;
    case 'K': sscanf(ln + 2, "%d %lld", &o->i, &o->wide); o->a = o->wide > (1LL << 30) ? (1 << 30) : (int)o->wide; break;   /* the chunk size is a size_t */
    case 'F': case 'G': sscanf(ln + 2, "%d %d", &o->i, &o->a); break;
    case 'L': sscanf(ln + 2, "%d", &o->a); o->i = 0; break;
    case 'J': o->i = 0; o->a = 0; sscanf(ln + 2, "%d", &o->a); break;
    case 'Q': sscanf(ln + 2, "%d", &o->i); break;
    case 'W': sscanf(ln + 2, "%d %d %d %d %d", &o->a, &o->b, &o->c, &o->d, &o->e); break;
    case 'A': case 'T': hex[0] = 0; sscanf(ln + 2, "%d %7s %31s %4194303s", &o->i, o->flags, o->tag, hex); break;
    case 'N': case 'U': hex[0] = 0; sscanf(ln + 2, "%d %d %7s %31s %4194303s", &o->i, &o->a, o->flags, o->tag, hex); break;
    case 'B': hex[0] = 0; sscanf(ln + 2, "%d %4194303s", &o->i, hex); break;
    case 'Z': o->b = 0; sscanf(ln + 2, "%39s %d %d", o->s, &o->a, &o->b); break;
    default: continue;
    }
    if (strchr("ANTUB", ln[0])) {
      size_t hl = strlen(hex);
      if (!strcmp(hex, "-")) hl = 0;
      o->text = malloc(hl / 2 + 1);
      for (size_t q = 0; q < hl / 2; q++) { unsigned v; sscanf(hex + 2 * q, "%2x", &v); o->text[q] = (char)v; }
      o->text[hl / 2] = 0;
    }
    nops++;
  }
  fflush(stdout);
  return 0;
}
