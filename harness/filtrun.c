/* filtrun: the line filter of the library as a function (spec/AsmFilter.tla).
 * stdin : one job per line:  <hex of text>   ("-" = empty text)
 * stdout: ndjson, same order: {"s":[bytes],"out":[kept characters reported by the filter hook for the first line],"ret":filter return value (-1 = rejected),
 *                              "cret":return value of asm_assemble_str,"n":bytes emitted}   or {"s":[...],"fault":"SIGn"|"timeout"|"exitN"}
 * The filter hook (AL_VERIF_FILTERED) fires once per line; only the first firing of a call is recorded.
 */
#define _GNU_SOURCE
#include <assemblyline.h>
#include <verif_hooks.h>
#include <signal.h>
#include <stdio.h>
#include <stdlib.h>
#include <string.h>
#include <sys/mman.h>
#include <sys/wait.h>
#include <unistd.h>

#define MAXTXT 4096
static int got, f_j, f_ret;
static unsigned char f_out[256];
static void on_filtered(const char *in, const char *out, int j, int ret) {
  (void)in;
  if (got) return;
  got = 1; f_j = j; f_ret = ret;
  int n = j < 0 ? 0 : j > 255 ? 255 : j;
  memcpy(f_out, out, n);
}
static int unhex(const char *h, unsigned char *out, int max) {
  int n = 0;
  if (h[0] == '-') { out[0] = 0; return 0; }
  for (; h[2 * n] && h[2 * n + 1] && h[2 * n] != '\n' && n < max - 1; n++) { unsigned v; sscanf(h + 2 * n, "%2x", &v); out[n] = (unsigned char)v; }
  out[n] = 0;
  return n;
}
static void pr(const char *key, const unsigned char *p, int n) {
  printf("\"%s\":[", key);
  for (int i = 0; i < n; i++) printf("%s%d", i ? "," : "", p[i]);
  printf("]");
}
int main(void) {
  static char *jobs[2000000]; size_t nj = 0;
  char *ln = NULL; size_t sz = 0;
  while (getline(&ln, &sz, stdin) > 0 && nj < 2000000) jobs[nj++] = strdup(ln);
  size_t *progress = mmap(NULL, sizeof(size_t), PROT_READ | PROT_WRITE, MAP_ANONYMOUS | MAP_SHARED, -1, 0);
  if (!freopen("/dev/null", "w", stderr)) return 2;
  al_verif.filtered = on_filtered;
  size_t start = 0;
  static unsigned char text[MAXTXT], buf[512];
  while (start < nj) {
    fflush(stdout);
    pid_t pid = fork();
    if (pid == 0) {
      for (size_t j = start; j < nj; j++) {
        *progress = j;
        alarm(5);
        int n = unhex(jobs[j], text, MAXTXT);
        got = 0; f_j = 0; f_ret = -2;
        assemblyline_t al = asm_create_instance(buf, sizeof buf);
        int cret = asm_assemble_str(al, (const char *)text);
        int off = asm_get_offset(al);
        asm_destroy_instance(al);
        printf("{"); pr("s", text, n); printf(","); pr("out", f_out, f_j < 0 ? 0 : f_j > 255 ? 255 : f_j);
        printf(",\"ret\":%d,\"cret\":%d,\"n\":%d}\n", got ? f_ret : -2, cret, off);
        fflush(stdout);
      }
      alarm(0); *progress = nj; fflush(stdout); _exit(0);
    }
    int st = 0;
    waitpid(pid, &st, 0);
    if (WIFEXITED(st) && WEXITSTATUS(st) == 0 && *progress == nj) break;
    size_t j = *progress;
    if (j >= nj) break;
    int n = unhex(jobs[j], text, MAXTXT);
    printf("{"); pr("s", text, n);
    if (WIFSIGNALED(st) && WTERMSIG(st) == SIGALRM) printf(",\"fault\":\"timeout\"}\n");
    else if (WIFSIGNALED(st)) printf(",\"fault\":\"SIG%d\"}\n", WTERMSIG(st));
    else printf(",\"fault\":\"exit%d\"}\n", WEXITSTATUS(st));
    start = j + 1;
  }
  fflush(stdout);
  return 0;
}
