/* threadrun: independent instances in different threads (C18, DESIGN 5).
 *
 *   threadrun observe                     one thread: create / configure / assemble / count / destroy once; logs every
 *                                         access to the shared index tables (through the table hook) -> model instantiation
 *   threadrun free <nthreads> <rounds>    free-running threads (meant for the TSan build); every round's result is logged
 *                                         next to the single-threaded reference result of the same work item
 *   threadrun sched <nthreads> <rounds>   turn-based: stdin holds one schedule per line (thread ids separated by blanks);
 *                                         the table hook is the yield point; accesses are logged in their global order
 *
 * stdout: ndjson.  {"e":"Tbl","th":t,"s":0|1,"t":tbl,"i":idx,"v":val}  (v: value stored / value the load sees)
 *                  {"e":"Result","th":t,"round":r,"item":k,"ret":..,"off":..,"dest":..,"hash":..,"ref":{...}}
 *                  {"e":"Reset"} between schedules
 */
#define _GNU_SOURCE
#include <assemblyline.h>
#include <verif_hooks.h>
#include <pthread.h>
#include <stdatomic.h>
#include <stdio.h>
#include <stdlib.h>
#include <string.h>
#include <sys/stat.h>
#include <sys/types.h>
#include <unistd.h>

extern _Atomic(int) instr_table_index[26];
extern _Atomic(int) opd_format_table_index[26];

#define MAXT 16
#define CAPB 4096
#define MAXLOG 200000

/* work items: (options, chunk, counting, program) - private per thread */
struct item { int mov, swap, nobase, chunk, count; const char *text; int usefile; };
static const struct item ITEMS[] = {
    {2, 1, 1, 0, 0, "mov rax, 0x5\nadd rax, rcx\nlea rdx, [rax+rsp]\nlea rcx, [2*rax]\nret\n"},
    /* the file entry points (files of different sizes, private to the item): placed so that two threads run them side by side */
    {2, 1, 1, 0, 0, "mov rax, 0x5\nret\n", 1},
    {0, 1, 0, 0, 8, "vpaddb ymm1, ymm2, [rax+r9*4]\nadd rax, rcx\nlea rdx, [rax+rsp]\nmov rax, 0x1122334455667788\npush r11w\nshl rax, 0x5\nnop9\nret\n", 1},
    {0, 0, 0, 8, 0, "mov rax, 0x1122334455667788\nvpaddb ymm1, ymm2, [rax+r9*4]\npush r11w\nshl rax, 0x5\nret\n"},
    {1, 1, 0, 0, 16, "xor eax, eax\nimul rax, rcx, 0x12345\nmovq xmm1, rax\nbzhi ecx, [r13+rcx*4], r10d\njne -0x1000\nret\n"},
    {2, 0, 1, 16, 0, "paddb mm1, [rax]\nsetc al\ncmovne rax, r11\nmulx r8, r9, [rsi]\nmov qword [rax+0x12345], 0x5\nret\n"},
    {1, 0, 1, 0, 3, "nop11\nnop7\nadd qword [rax+rcx*4+0x10], 0x12345678\nxchg eax, eax\nbogus line\nret\n"},
};
#define NITEMS ((int)(sizeof ITEMS / sizeof ITEMS[0]))

struct result { int ret, off, dest; unsigned hash; };

static char item_path[16][300];
static __thread int in_work = 0;
static void os_yield(int id);
static unsigned hash30(const unsigned char *p, int n) {
  unsigned h = 2166136261u;
  for (int i = 0; i < n; i++) { h ^= p[i]; h *= 16777619u; }
  return (h ^ (h >> 15)) & 0x3fffffff;
}
static enum asm_opt ov(int v) { return v == 0 ? STRICT : v == 1 ? NASM : SMART; }

static void work(const struct item *it, unsigned char *buf, struct result *r) {
  memset(buf, 0xAA, CAPB);
  assemblyline_t al = asm_create_instance(buf, CAPB);
  asm_mov_imm(al, ov(it->mov));
  asm_sib_index_base_swap(al, ov(it->swap));
  asm_sib_no_base(al, ov(it->nobase));
  if (it->chunk) asm_set_chunk_size(al, it->chunk);
  char *txt = strdup(it->usefile ? item_path[it - ITEMS] : it->text);
  r->dest = -7;
  in_work = 1;
  if (it->usefile) r->ret = it->count ? asm_assemble_file_counting_chunks(al, txt, it->count, &r->dest) : asm_assemble_file(al, txt);
  else r->ret = it->count ? asm_assemble_string_counting_chunks(al, txt, it->count, &r->dest) : asm_assemble_str(al, txt);
  in_work = 0;
  free(txt);
  r->off = asm_get_offset(al);
  r->hash = hash30(buf, r->off > 0 && r->off < CAPB ? r->off : 0);
  asm_destroy_instance(al);
}

/* ---- logging of table accesses and turn-based scheduling ---- */
struct acc { int th, s, t, i, v; };
static struct acc *alog; static int nlog;
static pthread_mutex_t mu = PTHREAD_MUTEX_INITIALIZER;
static pthread_cond_t cv = PTHREAD_COND_INITIALIZER;
static __thread int me = 0;
static int mode_sched, nthreads;
static int *sched, nsched, sptr, holder = -1, finished[MAXT + 1];

static void release_turn(void) { /* called with mu held */
  if (holder == me) {
    if (sptr < nsched) sptr++;
    holder = -1;
  }
  while (sptr < nsched && finished[sched[sptr]]) sptr++;
  pthread_cond_broadcast(&cv);
}
static void on_tbl(int is_store, int tbl, int idx, int val) {
  if (me == 0) return;
  pthread_mutex_lock(&mu);
  if (mode_sched) {
    /* the previous access of this thread is complete now: give the turn back, then wait for the next one */
    release_turn();
    for (;;) {
      while (sptr < nsched && finished[sched[sptr]]) sptr++;
      if (holder == -1 && (sptr >= nsched || sched[sptr] == me)) break;
      pthread_cond_wait(&cv, &mu);
    }
    holder = me;
  }
  int seen = is_store ? val : tbl == 2 ? 0 : (tbl == 0 ? instr_table_index[idx] : opd_format_table_index[idx]);
  if (nlog < MAXLOG) { alog[nlog].th = me; alog[nlog].s = is_store; alog[nlog].t = tbl; alog[nlog].i = idx; alog[nlog].v = seen; nlog++; }
  pthread_mutex_unlock(&mu);
}

/* OS calls of the file entry points are yield points too (table id 2: no shared cell behind them in the model); a yield
 * before AND after each call, so that another thread can run between the kernel filling a result and the library using it */
static void os_yield(int id) { if (in_work && me != 0 && al_verif.tbl == on_tbl) on_tbl(0, 2, id, 0); }
int __real_open(const char *, int, ...); int __real_fstat(int, struct stat *); ssize_t __real_read(int, void *, size_t); int __real_close(int);
int __wrap_open(const char *p, int fl, ...) { os_yield(0); int r = __real_open(p, fl, 0); os_yield(1); return r; }
int __wrap_fstat(int fd, struct stat *st) { os_yield(2); int r = __real_fstat(fd, st); os_yield(3); return r; }
ssize_t __wrap_read(int fd, void *b, size_t n) { os_yield(4); ssize_t r = __real_read(fd, b, n); os_yield(5); return r; }
int __wrap_close(int fd) { os_yield(6); int r = __real_close(fd); os_yield(7); return r; }

struct targ { int id, rounds; struct result *res; };
static void *thread_main(void *p) {
  struct targ *a = p;
  me = a->id;
  unsigned char *buf = malloc(CAPB);
  for (int r = 0; r < a->rounds; r++) {
    int k = (a->id + r) % NITEMS;
    work(&ITEMS[k], buf, &a->res[r]);
  }
  free(buf);
  pthread_mutex_lock(&mu);
  finished[me] = 1;
  release_turn();
  pthread_mutex_unlock(&mu);
  return NULL;
}

static void dump_log(void) {
  for (int k = 0; k < nlog; k++)
    printf("{\"e\":\"Tbl\",\"th\":%d,\"s\":%d,\"t\":%d,\"i\":%d,\"v\":%d}\n", alog[k].th, alog[k].s, alog[k].t, alog[k].i, alog[k].v);
}

static void run_threads(int n, int rounds, struct result ref[NITEMS]) {
  pthread_t th[MAXT + 1];
  struct targ ta[MAXT + 1];
  static struct result res[MAXT + 1][64];
  nlog = 0; sptr = 0; holder = -1;
  memset(finished, 0, sizeof finished);
  for (int t = 1; t <= n; t++) { ta[t].id = t; ta[t].rounds = rounds; ta[t].res = res[t]; pthread_create(&th[t], NULL, thread_main, &ta[t]); }
  for (int t = 1; t <= n; t++) pthread_join(th[t], NULL);
  dump_log();
  for (int t = 1; t <= n; t++)
    for (int r = 0; r < rounds; r++) {
      int k = (t + r) % NITEMS;
      printf("{\"e\":\"Result\",\"th\":%d,\"round\":%d,\"item\":%d,\"ret\":%d,\"off\":%d,\"dest\":%d,\"hash\":%u,"
             "\"ref\":{\"ret\":%d,\"off\":%d,\"dest\":%d,\"hash\":%u}}\n",
             t, r, k, res[t][r].ret, res[t][r].off, res[t][r].dest, res[t][r].hash, ref[k].ret, ref[k].off, ref[k].dest, ref[k].hash);
    }
  printf("{\"e\":\"Reset\"}\n");
  fflush(stdout);
}

int main(int argc, char **argv) {
  if (argc < 2) return 2;
  if (!freopen("/dev/null", "w", stderr)) return 2;
  alog = malloc(sizeof(struct acc) * MAXLOG);
  /* item files (private directory given by the driver) */
  const char *dir = getenv("THR_DIR");
  for (int k = 0; k < NITEMS; k++)
    if (ITEMS[k].usefile) {
      snprintf(item_path[k], sizeof item_path[k], "%s/item%d.asm", dir ? dir : ".", k);
      FILE *f = fopen(item_path[k], "w");
      if (!f) return 2;
      fputs(ITEMS[k].text, f);
      fclose(f);
    }
  struct result ref[NITEMS];
  unsigned char *buf = malloc(CAPB);
  /* single-threaded reference (hooks not installed yet) */
  for (int k = 0; k < NITEMS; k++) work(&ITEMS[k], buf, &ref[k]);
  al_verif.tbl = on_tbl;
  if (!strcmp(argv[1], "observe")) {
    for (int k = 0; k < NITEMS; k++) {
      me = 1; nlog = 0;
      struct result r;
      work(&ITEMS[k], buf, &r);
      me = 0;
      printf("{\"e\":\"Item\",\"k\":%d,\"acc\":[", k);
      for (int q = 0; q < nlog; q++)
        printf("%s{\"s\":%d,\"t\":%d,\"i\":%d,\"v\":%d}", q ? "," : "", alog[q].s, alog[q].t, alog[q].i, alog[q].v);
      printf("]}\n");
    }
    return 0;
  }
  int n = argc > 2 ? atoi(argv[2]) : 2, rounds = argc > 3 ? atoi(argv[3]) : 1;
  if (n > MAXT) n = MAXT;
  if (rounds > 64) rounds = 64;
  nthreads = n;
  if (!strcmp(argv[1], "free")) {
    al_verif.tbl = NULL; /* no serialisation at all: the sanitizer sees the real accesses */
    run_threads(n, rounds, ref);
    return 0;
  }
  if (!strcmp(argv[1], "sched")) {
    mode_sched = 1;
    char *ln = NULL; size_t sz = 0; ssize_t len;
    while ((len = getline(&ln, &sz, stdin)) > 0) {
      static int s[MAXLOG];
      nsched = 0;
      char *save = NULL;
      for (char *tok = strtok_r(ln, " \n", &save); tok && nsched < MAXLOG; tok = strtok_r(NULL, " \n", &save)) {
        int v = atoi(tok);
        if (v >= 1 && v <= n) s[nsched++] = v;
      }
      sched = s;
      run_threads(n, rounds, ref);
    }
    return 0;
  }
  return 2;
}
