/* threadrun: independent instances in different threads (C18, DESIGN 5).
 *
 *   threadrun observe                     one thread: create / configure / assemble / count / destroy once; logs every
 *                                         access to the shared index tables (through the table hook) -> model instantiation
 *   threadrun free <nthreads> <rounds>    free-running threads (meant for the TSan build); every round's result is logged
 *                                         next to the single-threaded reference result of the same work item
 *   threadrun sched <nthreads> <rounds>   turn-based: stdin holds one schedule per line (thread ids separated by blanks);
 *                                         the table hook is the yield point; accesses are logged in their global order
 *
 * stdout: ndjson.  {"e":"Tbl","th":t,"s":0|1,"t":tbl,"i":idx,"v":val}  (v: value stored / value the load sees)
 *                  {"e":"Result","th":t,"round":r,"item":k,"ret":..,"off":..,"dest":..,"hash":..,"ref":{...}}
 *                  {"e":"Reset"} between schedules
 */
#define _GNU_SOURCE
#include <assemblyline.h>
#include <verif_hooks.h>
#include <pthread.h>
#include <stdbool.h>
#include <stdatomic.h>
#include <stdio.h>
#include <stdlib.h>
#include <string.h>
#include <fcntl.h>
#include <sys/mman.h>
#include <sys/stat.h>
#include <sys/wait.h>
#include <sys/types.h>
#include <unistd.h>

extern _Atomic(int) instr_table_index[26];
extern _Atomic(int) opd_format_table_index[26];

#define MAXT 16
#define CAPB 4096
#define MAXLOG 200000

/* work items: (options, chunk, counting, program) - private per thread */
struct item { int mov, swap, nobase, chunk, count; const char *text; int usefile; int internal; int debug; };
static const struct item ITEMS[] = {
    {2, 1, 1, 0, 0, "mov rax, 0x5\nadd rax, rcx\nxchg rax, r9\nlea rdx, [rax+rsp]\nlea rcx, [2*rax]\nxchg eax, ecx\nret\n"},
    /* the file entry points (files of different sizes, private to the item): placed so that two threads run them side by side */
    {2, 1, 1, 0, 0, "mov rax, 0x5\nret\n", 1},
    {0, 1, 0, 0, 8, "vpaddb ymm1, ymm2, [rax+r9*4]\nadd rax, rcx\nlea rdx, [rax+rsp]\nmov rax, 0x1122334455667788\npush r11w\nshl rax, 0x5\nnop9\nret\n", 1},
    /* a file that turns out shorter than fstat announced (the harness ends its first read early): the call must fail, alone as
       well as next to other threads, and must not disturb their files */
    {2, 1, 1, 0, 0, "mov rax, 0x7\nadd rax, rcx\nret\n", 2},
    {0, 0, 0, 8, 0, "mov rax, 0x1122334455667788\nvpaddb ymm1, ymm2, [rax+r9*4]\nxchg rax, rbx\npush r11w\nshl rax, 0x5\nxchg ax, r12w\nret\n"},
    {1, 1, 0, 0, 16, "xor eax, eax\nimul rax, rcx, 0x12345\nmovq xmm1, rax\nbzhi ecx, [r13+rcx*4], r10d\njne -0x1000\nret\n"},
    {2, 0, 1, 16, 0, "paddb mm1, [rax]\nsetc al\ncmovne rax, r11\nmulx r8, r9, [rsi]\nmov qword [rax+0x12345], 0x5\nret\n"},
    {1, 0, 1, 0, 3, "nop11\nnop7\nadd qword [rax+rcx*4+0x10], 0x12345678\nxchg eax, eax\nbogus line\nret\n"},
    /* a known mnemonic with a vector layout it does not have: rejected after a look at its table rows - while other threads look up
       mnemonics with the same first letter */
    {2, 1, 1, 0, 0, "adc rax, rcx\nadd xmm0, xmm1\nret\n"},
    {2, 1, 1, 0, 0, "adcx rax, rcx\nand rax, rcx\npaddq ymm0, ymm1\nret\n"},
    /* the debug listing switched on, in plain and in counting mode (stdout is silenced while the threads run) */
    {2, 1, 1, 0, 0, "mov rax, 0x1122334455667788\nadd rax, rcx\nvpaddb ymm1, ymm2, [rax+r9*4]\nret\n", 0, 0, 1},
    {1, 0, 1, 0, 8, "imul rax, rcx, 0x12345\nnop9\nmov qword [rax+0x12345], 0x5\nret\n", 0, 0, 1},
    /* a library-managed buffer that has to grow (and may move) twice: text built at start-up; free-running mode only
       (thousands of table accesses: too long for the interleaving model) */
    {2, 1, 1, 0, 0, NULL, 0, 1},
    /* and a short program on a library-managed buffer (its mapping is what a stale unmap of another thread would hit) */
    {1, 1, 1, 0, 0, "mov rax, 0x5\nadd rax, rcx\nlea rdx, [rax+rsp]\nret\n", 0, 1},
};
#define NALL ((int)(sizeof ITEMS / sizeof ITEMS[0]))
#define NSCHED (NALL - 2)            /* items of the model and of the scheduled runs */
static int NITEMS = NSCHED;
static int stress_mode = 0, stress_bad = 0;
static struct result *stress_ref;
static int stress_moves = 0, stress_grows = 0;
static void on_grow_count(const void *al, int o, int n, int moved) { (void)al; (void)o; (void)n; __atomic_add_fetch(&stress_grows, 1, __ATOMIC_RELAXED); if (moved) __atomic_add_fetch(&stress_moves, 1, __ATOMIC_RELAXED); }

struct result { int ret, off, dest; unsigned hash; };

static char item_path[16][300];
static __thread int in_work = 0, short_read = 0;
static void os_yield(int id);
static unsigned hash30(const unsigned char *p, int n) {
  unsigned h = 2166136261u;
  for (int i = 0; i < n; i++) { h ^= p[i]; h *= 16777619u; }
  return (h ^ (h >> 15)) & 0x3fffffff;
}
static enum asm_opt ov(int v) { return v == 0 ? STRICT : v == 1 ? NASM : SMART; }

static char *long_text;
static void work(const struct item *it, unsigned char *buf, struct result *r) {
  memset(buf, 0xAA, CAPB);
  in_work = 1;
  assemblyline_t al = it->internal ? asm_create_instance(NULL, 0) : asm_create_instance(buf, CAPB);
  in_work = 0;
  asm_mov_imm(al, ov(it->mov));
  asm_sib_index_base_swap(al, ov(it->swap));
  asm_sib_no_base(al, ov(it->nobase));
  if (it->chunk) asm_set_chunk_size(al, it->chunk);
  if (it->debug) asm_set_debug(al, true);
  char *txt = strdup(it->usefile ? item_path[it - ITEMS] : it->text ? it->text : long_text);
  r->dest = -7;
  in_work = 1;
  short_read = it->usefile == 2;
  if (it->usefile) r->ret = it->count ? asm_assemble_file_counting_chunks(al, txt, it->count, &r->dest) : asm_assemble_file(al, txt);
  else r->ret = it->count ? asm_assemble_string_counting_chunks(al, txt, it->count, &r->dest) : asm_assemble_str(al, txt);
  in_work = 0; short_read = 0;
  free(txt);
  r->off = asm_get_offset(al);
  if (it->internal) r->hash = hash30(asm_get_code(al), r->off > 0 ? r->off : 0);
  else r->hash = hash30(buf, r->off > 0 && r->off < CAPB ? r->off : 0);
  in_work = 1;
  asm_destroy_instance(al);
  in_work = 0;
}

/* ---- logging of table accesses and turn-based scheduling ---- */
struct acc { int th, s, t, i, v; };
static struct acc *alog; static int nlog;
static pthread_mutex_t mu = PTHREAD_MUTEX_INITIALIZER;
static pthread_cond_t cv = PTHREAD_COND_INITIALIZER;
static __thread int me = 0;
static int mode_sched, nthreads;
static int *sched, nsched, sptr, holder = -1, finished[MAXT + 1];

static void release_turn(void) { /* called with mu held */
  if (holder == me) {
    if (sptr < nsched) sptr++;
    holder = -1;
  }
  while (sptr < nsched && finished[sched[sptr]]) sptr++;
  pthread_cond_broadcast(&cv);
}
static void on_tbl(int is_store, int tbl, int idx, int val) {
  if (me == 0) return;
  pthread_mutex_lock(&mu);
  if (mode_sched) {
    /* the previous access of this thread is complete now: give the turn back, then wait for the next one */
    release_turn();
    for (;;) {
      while (sptr < nsched && finished[sched[sptr]]) sptr++;
      if (holder == -1 && (sptr >= nsched || sched[sptr] == me)) break;
      pthread_cond_wait(&cv, &mu);
    }
    holder = me;
  }
  int seen = is_store ? val : tbl == 2 ? 0 : (tbl == 0 ? instr_table_index[idx] : opd_format_table_index[idx]);
  if (nlog < MAXLOG) { alog[nlog].th = me; alog[nlog].s = is_store; alog[nlog].t = tbl; alog[nlog].i = idx; alog[nlog].v = seen; nlog++; }
  pthread_mutex_unlock(&mu);
}

/* OS calls of the file entry points are yield points too (table id 2: no shared cell behind them in the model); a yield
 * before AND after each call, so that another thread can run between the kernel filling a result and the library using it */
static void os_yield(int id) { if (in_work && me != 0 && al_verif.tbl == on_tbl) on_tbl(0, 2, id, 0); }
int __real_open(const char *, int, ...); int __real_fstat(int, struct stat *); ssize_t __real_read(int, void *, size_t); int __real_close(int);
int __wrap_open(const char *p, int fl, ...) { os_yield(0); int r = __real_open(p, fl, 0); os_yield(1); return r; }
int __wrap_fstat(int fd, struct stat *st) { os_yield(2); int r = __real_fstat(fd, st); os_yield(3); return r; }
ssize_t __wrap_read(int fd, void *b, size_t n) { os_yield(4); ssize_t r = (short_read && in_work) ? 0 : __real_read(fd, b, n); os_yield(5); return r; }
int __wrap_close(int fd) { os_yield(6); int r = __real_close(fd); os_yield(7); return r; }
/* pair mode: thread 1 grows a library-managed buffer; the first time the kernel MOVES its mapping, thread 2 is let in right behind
 * the mremap (it creates a library-managed instance - its mapping takes the range just vacated, if the kernel hands it out - and
 * assembles into it), then thread 1 goes on, then thread 2 finishes (reads its code back, destroys the instance) */
static int pair_mode, pair_stage; /* 0 idle, 1: T2 may run its first half, 2: T1 may go on, 3: T2 may finish */
static pthread_mutex_t pmu = PTHREAD_MUTEX_INITIALIZER; static pthread_cond_t pcv = PTHREAD_COND_INITIALIZER;
static void pair_set(int v) { pthread_mutex_lock(&pmu); pair_stage = v; pthread_cond_broadcast(&pcv); pthread_mutex_unlock(&pmu); }
static void pair_wait(int v) { pthread_mutex_lock(&pmu); while (pair_stage < v) pthread_cond_wait(&pcv, &pmu); pthread_mutex_unlock(&pmu); }
static void *pair_vacated;   /* pair mode: the range thread 1's mapping was moved away from, offered to thread 2 as a placement hint
                                (a hint, not MAP_FIXED: the kernel may hand out any free range, this one included) */
/* the mapping calls of library-managed buffers */
#ifndef NO_MAP_WRAP
void *__real_mmap(void *, size_t, int, int, int, off_t); void *__real_mremap(void *, size_t, size_t, int, ...); int __real_munmap(void *, size_t);
void *__wrap_mmap(void *a, size_t l, int p, int f, int fd, off_t o) {
  os_yield(8);
  if (a == NULL && me == 2 && pair_vacated) a = pair_vacated;
  void *r = __real_mmap(a, l, p, f, fd, o);
  os_yield(9);
  return r;
}
void *__wrap_mremap(void *a, size_t o, size_t n, int f, ...) {
  os_yield(10);
  void *r = __real_mremap(a, o, n, f);
  if (pair_mode == 1 && me == 1 && r != a && r != MAP_FAILED && pair_stage == 0) { pair_vacated = a; pair_set(1); pair_wait(2); }
  os_yield(11);
  return r;
}
int __wrap_munmap(void *a, size_t l) { os_yield(12); int r = __real_munmap(a, l); os_yield(13); return r; }
#endif

/* binpair mode: two threads each write the code of their own library-managed instance to their own file (asm_create_bin_file).
 * Thread 1 is held at a chosen point inside its call - behind fopen, or behind fwrite and before the fclose that flushes - while
 * thread 2 runs its complete create / assemble / write / destroy; both files must hold what they hold when the threads run alone. */
static int bin_split = -1;   /* 0: behind fopen, 1: behind fwrite (before fclose) */
FILE *__real_fopen(const char *, const char *); size_t __real_fwrite(const void *, size_t, size_t, FILE *); int __real_fclose(FILE *);
static void bin_window(int at) { if (pair_mode == 2 && in_work && me == 1 && bin_split == at && pair_stage == 0) { pair_set(1); pair_wait(2); } }
FILE *__wrap_fopen(const char *p, const char *m) { FILE *f = __real_fopen(p, m); bin_window(0); return f; }
size_t __wrap_fwrite(const void *b, size_t sz, size_t n, FILE *f) { size_t r = __real_fwrite(b, sz, n, f); if (f != stdout && f != stderr) bin_window(1); return r; }
int __wrap_fclose(FILE *f) { return __real_fclose(f); }
static unsigned file_hash(const char *path, long *len) {
  int fd = __real_open(path, O_RDONLY, 0);
  unsigned h = 2166136261u; *len = 0;
  if (fd < 0) { *len = -1; return 0; }
  unsigned char b[4096]; ssize_t r;
  while ((r = __real_read(fd, b, sizeof b)) > 0) { for (ssize_t i = 0; i < r; i++) { h ^= b[i]; h *= 16777619u; } *len += r; }
  __real_close(fd);
  return (h ^ (h >> 15)) & 0x3fffffff;
}
struct binres { int ret, bret; long flen; unsigned fhash, hash; int off; };
static char *bin_text[2];
static char bin_path[2][300];
static void bin_work(int who, struct binres *r) {
  assemblyline_t al = asm_create_instance(NULL, 0);
  char *txt = strdup(bin_text[who]);
  r->ret = asm_assemble_str(al, txt);
  free(txt);
  r->off = asm_get_offset(al);
  r->hash = hash30(asm_get_code(al), r->off > 0 ? r->off : 0);
  in_work = 1;
  r->bret = asm_create_bin_file(al, bin_path[who]);
  in_work = 0;
  asm_destroy_instance(al);
  r->fhash = file_hash(bin_path[who], &r->flen);
  unlink(bin_path[who]);
}
static void *bin_t1(void *p) { me = 1; bin_work(0, p); pair_set(pair_stage < 2 ? 2 : pair_stage); return NULL; }
static void *bin_t2(void *p) { me = 2; pair_wait(1); bin_work(1, p); pair_set(2); return NULL; }

void *pair_t1(void *p) {
  me = 1;
  unsigned char *buf = malloc(CAPB);
  work(&ITEMS[NALL - 2], buf, p);            /* the growing library-managed buffer */
  free(buf);
  pair_set(pair_stage < 2 ? 2 : pair_stage);
  return NULL;
}
void *pair_t2(void *p) {
  me = 2;
  struct result *r = p;
  const struct item *it = &ITEMS[NALL - 1];
  pair_wait(1);
  assemblyline_t al = asm_create_instance(NULL, 0);
  char *txt = strdup(it->text);
  r->ret = asm_assemble_str(al, txt);
  free(txt);
  pair_set(2);                                /* thread 1 goes on behind its mremap */
  pair_wait(3);                               /* ... and has finished */
  r->off = asm_get_offset(al);
  r->dest = -7;
  r->hash = hash30(asm_get_code(al), r->off > 0 ? r->off : 0);
  asm_destroy_instance(al);
  return NULL;
}

struct targ { int id, rounds; struct result *res; };
static void *thread_main(void *p) {
  struct targ *a = p;
  me = a->id;
  unsigned char *buf = malloc(CAPB);
  for (int r = 0; r < a->rounds; r++) {
    int k = stress_mode ? (a->id % 3 == 0 ? NALL - 2 : (r % 4 == 3 ? (a->id + r) % NSCHED : NALL - 1)) : (a->id + r) % NITEMS;
    if (stress_mode) {
      /* many rounds: the result is compared with the single-threaded reference at once and only mismatches are counted */
      struct result x;
      work(&ITEMS[k], buf, &x);
      if (x.ret != stress_ref[k].ret || x.off != stress_ref[k].off || x.dest != stress_ref[k].dest || x.hash != stress_ref[k].hash)
        __atomic_add_fetch(&stress_bad, 1, __ATOMIC_RELAXED);
      continue;
    }
    work(&ITEMS[k], buf, &a->res[r]);
  }
  free(buf);
  pthread_mutex_lock(&mu);
  finished[me] = 1;
  release_turn();
  pthread_mutex_unlock(&mu);
  return NULL;
}

static void dump_log(void) {
  for (int k = 0; k < nlog; k++)
    printf("{\"e\":\"Tbl\",\"th\":%d,\"s\":%d,\"t\":%d,\"i\":%d,\"v\":%d}\n", alog[k].th, alog[k].s, alog[k].t, alog[k].i, alog[k].v);
}

static void run_threads(int n, int rounds, struct result *ref) {
  pthread_t th[MAXT + 1];
  struct targ ta[MAXT + 1];
  static struct result res[MAXT + 1][64];
  nlog = 0; sptr = 0; holder = -1;
  memset(finished, 0, sizeof finished);
  /* the listing of the debug items goes to stdout: silenced until the threads are done */
  fflush(stdout);
  int keep1 = dup(1), nul1 = __real_open("/dev/null", O_WRONLY, 0);
  if (nul1 >= 0) dup2(nul1, 1);
  for (int t = 1; t <= n; t++) { ta[t].id = t; ta[t].rounds = rounds; ta[t].res = res[t]; pthread_create(&th[t], NULL, thread_main, &ta[t]); }
  for (int t = 1; t <= n; t++) pthread_join(th[t], NULL);
  fflush(stdout);
  if (keep1 >= 0) { dup2(keep1, 1); close(keep1); }
  if (nul1 >= 0) close(nul1);
  if (stress_mode) {
    printf("{\"e\":\"Stress\",\"threads\":%d,\"rounds\":%d,\"mismatches\":%d,\"grows\":%d,\"moves\":%d}\n{\"e\":\"Reset\"}\n", n, rounds, stress_bad, stress_grows, stress_moves);
    fflush(stdout);
    return;
  }
  dump_log();
  for (int t = 1; t <= n; t++)
    for (int r = 0; r < rounds; r++) {
      int k = stress_mode ? (t % 3 == 0 ? NALL - 2 : (r % 4 == 3 ? (t + r) % NSCHED : NALL - 1)) : (t + r) % NITEMS;
      printf("{\"e\":\"Result\",\"th\":%d,\"round\":%d,\"item\":%d,\"ret\":%d,\"off\":%d,\"dest\":%d,\"hash\":%u,"
             "\"ref\":{\"ret\":%d,\"off\":%d,\"dest\":%d,\"hash\":%u}}\n",
             t, r, k, res[t][r].ret, res[t][r].off, res[t][r].dest, res[t][r].hash, ref[k].ret, ref[k].off, ref[k].dest, ref[k].hash);
    }
  printf("{\"e\":\"Reset\"}\n");
  fflush(stdout);
}

int main(int argc, char **argv) {
  if (argc < 2) return 2;
  if (!freopen("/dev/null", "w", stderr)) return 2;
  alog = malloc(sizeof(struct acc) * MAXLOG);
  /* item files (private directory given by the driver) */
  const char *dir = getenv("THR_DIR");
  for (int k = 0; k < NALL; k++)
    if (ITEMS[k].usefile) {
      snprintf(item_path[k], sizeof item_path[k], "%s/item%d.asm", dir ? dir : ".", k);
      FILE *f = fopen(item_path[k], "w");
      if (!f) return 2;
      fputs(ITEMS[k].text, f);
      fclose(f);
    }
  /* 1300 ten-byte instructions: 13000 bytes, two growth steps of the 6020-byte initial mapping */
  long_text = malloc(1300 * 32 + 8);
  long_text[0] = 0;
  for (int q = 0; q < 1300; q++) strcat(long_text, "mov rax, 0x1122334455667788\n");
  strcat(long_text, "ret\n");
  struct result ref[NALL];
  unsigned char *buf = malloc(CAPB);
  /* single-threaded reference, computed in a child process: the threads below must be the first users of the library in this
     process (state that the first instance of a process sets up is then set up by them, concurrently) */
  {
    int pfd[2];
    if (pipe(pfd)) return 2;
    pid_t rp = fork();
    if (rp == 0) {
      for (int k = 0; k < NALL; k++) work(&ITEMS[k], buf, &ref[k]);
      ssize_t w = write(pfd[1], ref, sizeof ref); (void)w;
      _exit(0);
    }
    close(pfd[1]);
    size_t got = 0; ssize_t r;
    while (got < sizeof ref && (r = read(pfd[0], (char *)ref + got, sizeof ref - got)) > 0) got += (size_t)r;
    close(pfd[0]);
    int st; waitpid(rp, &st, 0);
    if (got != sizeof ref) return 2;
  }
  al_verif.tbl = on_tbl;
  if (!strcmp(argv[1], "observe")) {
    for (int k = 0; k < NITEMS; k++) {
      me = 1; nlog = 0;
      struct result r;
      fflush(stdout);
      int keepo = dup(1), nulo = __real_open("/dev/null", O_WRONLY, 0);     /* (the listing of the debug items) */
      if (nulo >= 0) dup2(nulo, 1);
      work(&ITEMS[k], buf, &r);
      fflush(stdout);
      if (keepo >= 0) { dup2(keepo, 1); close(keepo); }
      if (nulo >= 0) close(nulo);
      me = 0;
      printf("{\"e\":\"Item\",\"k\":%d,\"acc\":[", k);
      for (int q = 0; q < nlog; q++)
        printf("%s{\"s\":%d,\"t\":%d,\"i\":%d,\"v\":%d}", q ? "," : "", alog[q].s, alog[q].t, alog[q].i, alog[q].v);
      printf("]}\n");
    }
    return 0;
  }
  int n = argc > 2 ? atoi(argv[2]) : 2, rounds = argc > 3 ? atoi(argv[3]) : 1;
  if (n > MAXT) n = MAXT;
  if (rounds > 64 && strcmp(argv[1], "stress")) rounds = 64;
  nthreads = n;
  if (!strcmp(argv[1], "pair")) {
    /* argv[2] = repetitions.  Thread 2's result must equal the single-threaded reference of its item whatever thread 1 did */
    al_verif.tbl = NULL;
    int reps = argc > 2 ? atoi(argv[2]) : 20, bad = 0, moved = 0;
    pair_mode = 1;
    for (int q = 0; q < reps; q++) {
      pair_stage = 0; pair_vacated = NULL;
      pthread_t t1, t2;
      static struct result r1, r2;
      extern void *pair_t1(void *), *pair_t2(void *);
      pthread_create(&t1, NULL, pair_t1, &r1); pthread_create(&t2, NULL, pair_t2, &r2);
      pthread_join(t1, NULL);
      if (pair_stage == 0) pair_set(1);     /* no move happened: let thread 2 run through */
      else moved++;
      pair_set(3);
      pthread_join(t2, NULL);
      const struct result *e1 = &ref[NALL - 2], *e2 = &ref[NALL - 1];
      if (r1.ret != e1->ret || r1.off != e1->off || r1.hash != e1->hash || r2.ret != e2->ret || r2.off != e2->off || r2.hash != e2->hash) bad++;
    }
    printf("{\"e\":\"Stress\",\"threads\":2,\"rounds\":%d,\"mismatches\":%d,\"grows\":0,\"moves\":%d}\n{\"e\":\"Reset\"}\n", reps, bad, moved);
    return 0;
  }
  if (!strcmp(argv[1], "binpair")) {
    /* programs of 20 000 and 9 000 bytes (different code), so that both outputs exceed every stdio buffer size */
    al_verif.tbl = NULL;
    for (int w = 0; w < 2; w++) {
      int cnt = w ? 900 : 2000;
      bin_text[w] = malloc((size_t)cnt * 32 + 8); bin_text[w][0] = 0;
      for (int q = 0; q < cnt; q++) strcat(bin_text[w], w ? "mov rcx, 0x5544332211998877\n" : "mov rax, 0x1122334455667788\n");
      snprintf(bin_path[w], sizeof bin_path[w], "%s/binpair-%d.bin", dir ? dir : "/tmp", w);
    }
    struct binres alone[2], got[2];
    for (int w = 0; w < 2; w++) bin_work(w, &alone[w]);
    int bad = 0, runs = 0;
    pair_mode = 2;
    for (int sp = 0; sp < 2; sp++) {
      bin_split = sp; pair_stage = 0;
      pthread_t t1, t2;
      pthread_create(&t1, NULL, bin_t1, &got[0]); pthread_create(&t2, NULL, bin_t2, &got[1]);
      pthread_join(t1, NULL);
      if (pair_stage == 0) pair_set(1);       /* the window was never reached: let thread 2 run through */
      pthread_join(t2, NULL);
      runs++;
      for (int w = 0; w < 2; w++)
        if (memcmp(&got[w], &alone[w], sizeof got[w]) || got[w].bret != 0 || got[w].flen != got[w].off || got[w].fhash != got[w].hash) bad++;
    }
    printf("{\"e\":\"Stress\",\"threads\":2,\"rounds\":%d,\"mismatches\":%d,\"grows\":0,\"moves\":0}\n{\"e\":\"Reset\"}\n", runs, bad);
    return 0;
  }
  if (!strcmp(argv[1], "free") || !strcmp(argv[1], "stress")) {
    /* stress (plain build only): all items, including the growing library-managed buffer.  The race detector does not follow
       mremap, so a moved mapping whose old range another thread maps next would be reported as a race: that item stays out of
       the instrumented run and is judged by crashes and per-thread results instead */
    if (!strcmp(argv[1], "stress")) { NITEMS = NALL; stress_mode = 1; stress_ref = ref; al_verif.grow = on_grow_count; }
    al_verif.tbl = NULL; /* no serialisation at all: the sanitizer sees the real accesses */
    run_threads(n, rounds, ref);
    return 0;
  }
  if (!strcmp(argv[1], "sched")) {
    mode_sched = 1;
    char *ln = NULL; size_t sz = 0; ssize_t len;
    while ((len = getline(&ln, &sz, stdin)) > 0) {
      static int s[MAXLOG];
      nsched = 0;
      char *save = NULL;
      for (char *tok = strtok_r(ln, " \n", &save); tok && nsched < MAXLOG; tok = strtok_r(NULL, " \n", &save)) {
        int v = atoi(tok);
        if (v >= 1 && v <= n) s[nsched++] = v;
      }
      sched = s;
      /* every schedule runs in a process of its own, in which its threads are the first users of the library */
      fflush(stdout);
      pid_t sp = fork();
      if (sp == 0) { alarm(20); run_threads(n, rounds, ref); fflush(stdout); _exit(0); }
      int st = 0;
      waitpid(sp, &st, 0);
      if (!(WIFEXITED(st) && WEXITSTATUS(st) == 0)) {
        printf("{\"e\":\"Tsan\",\"threads\":%d,\"reports\":0,\"exit\":%d}\n{\"e\":\"Reset\"}\n", n, WIFSIGNALED(st) ? -WTERMSIG(st) : WEXITSTATUS(st));
        fflush(stdout);
      }
    }
    return 0;
  }
  return 2;
}
