/* linerun: drive the real library along a corpus of lines (DESIGN 4.3).
 *
 * stdin : jobs, one per line:  <id> TAB <flags> TAB <hex of text>
 *         flags: '-' or a string containing  x (execute "…; ret" and log rax)
 * stdout: one ndjson record per job:
 *   {"id":..,"runs":[{"o":[opt indices],"ctx":..,"mode":..,"ret":..,"off0":..,"off1":..,
 *                     "bytes":[..],"lo":..,"hi":..,"pre":..,"outside":0|1,"dest":..,"rax":[8 bytes]|null,
 *                     "fault":"none"}]}
 *   a job whose worker died: {"id":..,"runs":[],"fault":"SIG<n>"|"timeout"}
 *
 * options: --ctx solo0,solo37,first,mid,last   --modes plain,fit,count   --opts all|def|two
 *          --chunk N (chunk size for fit/count, default 8)
 *
 * Every run uses a fresh instance on a caller buffer surrounded by canaries.  The buffer is
 * assembled twice with two fill patterns so that a written byte differs from at least one.
 */
#define _GNU_SOURCE
#include <assemblyline.h>
#include <verif_hooks.h>
#include <signal.h>
#include <errno.h>
#include <stdbool.h>
#include <fcntl.h>
#include <stdio.h>
#include <stdlib.h>
#include <string.h>
#include <sys/mman.h>
#include <sys/wait.h>
#include <unistd.h>

#define CAP 512
#define CANARY 64
#define MAXTXT 8192

static const enum asm_opt MOVS[3] = {STRICT, NASM, SMART};
static const char *CTXS[] = {"solo0", "solo37", "first", "mid", "last", "edge"};   /* edge: alone, starting on the last byte of a chunk */
#define NCTX 6
static const char *MODES[] = {"plain", "fit", "count"};

struct outcome {
  int ret, off0, off1, lo, hi, pre, outside, dest, nbytes, hasrax;
  unsigned char bytes[CAP];
  unsigned char rax[8];
  int hf, hfna, ho, hr, hx; /* hooks: max kept chars of the filter, filter reported an error, max operand slot, max register cursor, max index-register length */
};

static int g_hf, g_hfna, g_ho, g_hr, g_hx;
static void on_filtered(const char *in, const char *out, int j, int ret) { (void)in; (void)out; if (j > g_hf) g_hf = j; if (ret < 0) g_hfna = 1; }
static void on_idx(int site, int idx, int cap) { (void)cap; if (site == 1 && idx > g_ho) g_ho = idx; if (site == 2 && idx > g_hr) g_hr = idx; if (site == 3 && idx > g_hx) g_hx = idx; }

static unsigned char *arena; /* CANARY | CAP | CANARY, RWX */
static int want_ctx[NCTX], want_mode[3], optsel = 0, chunk = 8;

static void set_opts(assemblyline_t al, int oi) {
  asm_mov_imm(al, MOVS[oi / 4]);
  asm_sib_index_base_swap(al, (oi / 2) % 2 ? NASM : STRICT);
  asm_sib_no_base(al, oi % 2 ? NASM : STRICT);
}

static int run_once(const char *text, int oi, int mode, int off0, unsigned char fill,
                    unsigned char *out, int *off1, int *dest) {
  unsigned char *buf = arena + CANARY;
  memset(arena, 0xC3 ^ fill, CANARY);
  memset(buf, fill, CAP);
  memset(buf + CAP, 0xC3 ^ fill, CANARY);
  assemblyline_t al = asm_create_instance(buf, CAP);
  set_opts(al, oi);
  if (mode == 1)
    asm_set_chunk_size(al, chunk);
  else if (oi % 3 == 1)
    asm_set_chunk_size(al, oi % 2); /* switching chunk fitting off explicitly (0 or 1: off) changes nothing: done for a third of the option combinations */
  asm_set_offset(al, off0);
  int ret;
  *dest = -1;
  /* LINERUN_DEBUG: the debug listing switched on (it goes to stdout: silenced while the library runs) */
  static int dbg = -1, nul = -1;
  if (dbg < 0) { dbg = getenv("LINERUN_DEBUG") != NULL; if (dbg) nul = open("/dev/null", O_WRONLY); }
  int keep = -1;
  if (dbg && nul >= 0) { asm_set_debug(al, true); fflush(stdout); keep = dup(1); dup2(nul, 1); }
  /* errno belongs to the caller and holds whatever an earlier call of anything left there: the result must not depend on it */
  errno = (oi % 3 == 0) ? ERANGE : (oi % 3 == 1) ? EINTR : 0;
  if (mode == 2)
    ret = asm_assemble_string_counting_chunks(al, (char *)text, chunk, dest);
  else
    ret = asm_assemble_str(al, text);
  if (keep >= 0) { fflush(stdout); dup2(keep, 1); close(keep); }
  *off1 = asm_get_offset(al);
  asm_destroy_instance(al);
  memcpy(out, arena, CAP + 2 * CANARY);
  return ret;
}

/* assemble prefix lines alone to learn where the line under test starts */
static int prefix_len(const char *prefix, int oi, int mode, int off0) {
  static unsigned char tmp[CAP + 2 * CANARY];
  int off1, dest;
  if (prefix[0] == 0)
    return 0;
  int r = run_once(prefix, oi, mode, off0, 0xAA, tmp, &off1, &dest);
  return r == 0 ? off1 - off0 : -1;
}

static void do_run(const char *text, int oi, int ctx, int mode, int exec, struct outcome *o) {
  static unsigned char a[CAP + 2 * CANARY], b[CAP + 2 * CANARY];
  static char prog[MAXTXT + 64];
  const char *prefix = "", *suffix = "";
  int off0 = ctx == 1 ? 37 : ctx == 5 ? chunk - 1 : 0;
  if (ctx == 2) suffix = "nop\nret\n";
  if (ctx == 3) { prefix = "nop\n"; suffix = "ret\n"; }
  if (ctx == 4) prefix = "nop\nnop\n";
  snprintf(prog, sizeof prog, "%s%s%s%s", prefix, text, suffix[0] ? "\n" : "", suffix);
  memset(o, 0, sizeof *o);
  o->pre = prefix_len(prefix, oi, mode, off0);
  int off1a, off1b, da, db;
  g_hf = g_ho = g_hr = g_hx = -1; g_hfna = 0;
  int ra = run_once(prog, oi, mode, off0, 0xAA, a, &off1a, &da);
  o->hf = g_hf; o->hfna = g_hfna; o->ho = g_ho; o->hr = g_hr; o->hx = g_hx;
  int rb = run_once(prog, oi, mode, off0, 0x55, b, &off1b, &db);
  o->ret = ra;
  o->off0 = off0;
  o->off1 = off1a;
  o->dest = da;
  o->lo = o->hi = -1;
  /* determinism across fill patterns is itself recorded: differing results set outside=2 */
  if (ra != rb || off1a != off1b || da != db)
    o->outside = 2;
  for (int i = 0; i < CAP + 2 * CANARY; i++) {
    int in = i >= CANARY && i < CANARY + CAP;
    unsigned char fa = in ? 0xAA : (0xC3 ^ 0xAA), fb = in ? 0x55 : (0xC3 ^ 0x55);
    int changed = a[i] != fa || b[i] != fb;
    if (changed) {
      if (!in) { if (!o->outside) o->outside = 1; continue; }
      int k = i - CANARY;
      if (o->lo < 0) o->lo = k;
      o->hi = k;
      if (a[i] != b[i] && o->outside == 0) o->outside = 3; /* content depends on prior buffer */
    }
  }
  if (ra == 0 && off1a >= off0 && off1a <= CAP) {
    o->nbytes = off1a - off0;
    memcpy(o->bytes, a + CANARY + off0, o->nbytes);
  }
  if (exec && ra == 0 && o->nbytes > 0 && o->nbytes < CAP - 1) {
    /* text is "mov rax, v" ; append ret and call it */
    unsigned char *buf = arena + CANARY;
    memcpy(buf, o->bytes, o->nbytes);
    buf[o->nbytes] = 0xc3;
    unsigned long (*f)(void) = (unsigned long (*)(void))buf;
    unsigned long v = f();
    memcpy(o->rax, &v, 8);
    o->hasrax = 1;
  }
}

static int same(const struct outcome *x, const struct outcome *y) {
  return x->ret == y->ret && x->off0 == y->off0 && x->off1 == y->off1 && x->lo == y->lo &&
         x->hi == y->hi && x->pre == y->pre && x->outside == y->outside && x->dest == y->dest &&
         x->nbytes == y->nbytes && x->hasrax == y->hasrax && x->hf == y->hf && x->hfna == y->hfna && x->ho == y->ho && x->hr == y->hr && x->hx == y->hx && !memcmp(x->bytes, y->bytes, x->nbytes) &&
         !memcmp(x->rax, y->rax, 8);
}

static void emit_job(FILE *out, const char *id, const char *text, int exec) {
  static struct outcome oc[12];
  static char line[1 << 16];
  int n = 0;
  n += snprintf(line + n, sizeof line - n, "{\"id\":\"%s\",\"runs\":[", id);
  int first = 1;
  for (int c = 0; c < NCTX; c++) {
    if (!want_ctx[c]) continue;
    for (int m = 0; m < 3; m++) {
      if (!want_mode[m]) continue;
      int sel[12], ns = 0;
      for (int oi = 0; oi < 12; oi++) {
        /* def: library default (SMART,NASM,NASM)=11 ; two: default and all-STRICT */
        if (optsel == 1 && oi != 11) continue;
        if (optsel == 2 && oi != 11 && oi != 0) continue;
        sel[ns++] = oi;
      }
      for (int k = 0; k < ns; k++)
        do_run(text, sel[k], c, m, exec && c == 0 && m == 0, &oc[k]);
      int done[12] = {0};
      for (int k = 0; k < ns; k++) {
        if (done[k]) continue;
        n += snprintf(line + n, sizeof line - n, "%s{\"o\":[", first ? "" : ",");
        first = 0;
        int f2 = 1;
        for (int j = k; j < ns; j++)
          if (!done[j] && same(&oc[k], &oc[j])) {
            done[j] = 1;
            n += snprintf(line + n, sizeof line - n, "%s%d", f2 ? "" : ",", sel[j]);
            f2 = 0;
          }
        struct outcome *o = &oc[k];
        n += snprintf(line + n, sizeof line - n,
                      "],\"ctx\":\"%s\",\"mode\":\"%s\",\"ret\":%d,\"off0\":%d,\"off1\":%d,\"lo\":%d,\"hi\":%d,"
                      "\"pre\":%d,\"outside\":%d,\"dest\":%d,\"hk\":[%d,%d,%d,%d,%d],\"bytes\":[",
                      CTXS[c], MODES[m], o->ret, o->off0, o->off1, o->lo, o->hi, o->pre, o->outside, o->dest, o->hf, o->hfna, o->ho, o->hr, o->hx);
        for (int i = 0; i < o->nbytes; i++)
          n += snprintf(line + n, sizeof line - n, "%s%d", i ? "," : "", o->bytes[i]);
        n += snprintf(line + n, sizeof line - n, "],\"rax\":[");
        if (o->hasrax)
          for (int i = 0; i < 8; i++)
            n += snprintf(line + n, sizeof line - n, "%s%d", i ? "," : "", o->rax[i]);
        n += snprintf(line + n, sizeof line - n, "],\"fault\":\"none\"}");
      }
    }
  }
  n += snprintf(line + n, sizeof line - n, "]}\n");
  fwrite(line, 1, n, out);
  fflush(out);
}

static int unhex(const char *h, char *out, int max) {
  int n = 0;
  if (!strcmp(h, "-")) { out[0] = 0; return 0; }
  for (; h[2 * n] && h[2 * n + 1] && n < max - 1; n++) {
    unsigned v;
    sscanf(h + 2 * n, "%2x", &v);
    out[n] = (char)v;
  }
  out[n] = 0;
  return n;
}

struct job { char *id, *flags, *hex; };

int main(int argc, char **argv) {
  want_ctx[0] = 1; want_mode[0] = 1;
  for (int i = 1; i < argc; i++) {
    if (!strcmp(argv[i], "--ctx") && i + 1 < argc) {
      memset(want_ctx, 0, sizeof want_ctx);
      for (int c = 0; c < NCTX; c++) if (strstr(argv[i + 1], CTXS[c])) want_ctx[c] = 1;
      i++;
    } else if (!strcmp(argv[i], "--modes") && i + 1 < argc) {
      memset(want_mode, 0, sizeof want_mode);
      for (int m = 0; m < 3; m++) if (strstr(argv[i + 1], MODES[m])) want_mode[m] = 1;
      i++;
    } else if (!strcmp(argv[i], "--opts") && i + 1 < argc) {
      optsel = !strcmp(argv[i + 1], "def") ? 1 : !strcmp(argv[i + 1], "two") ? 2 : 0;
      i++;
    } else if (!strcmp(argv[i], "--chunk") && i + 1 < argc) {
      chunk = atoi(argv[++i]);
    }
  }
  /* read all jobs */
  size_t nj = 0, capj = 1024;
  struct job *jobs = malloc(capj * sizeof *jobs);
  char *ln = NULL; size_t lsz = 0; ssize_t r;
  while ((r = getline(&ln, &lsz, stdin)) > 0) {
    if (ln[r - 1] == '\n') ln[r - 1] = 0;
    char *t1 = strchr(ln, '\t'); if (!t1) continue;
    char *t2 = strchr(t1 + 1, '\t'); if (!t2) continue;
    *t1 = 0; *t2 = 0;
    if (nj == capj) { capj *= 2; jobs = realloc(jobs, capj * sizeof *jobs); }
    jobs[nj].id = strdup(ln); jobs[nj].flags = strdup(t1 + 1); jobs[nj].hex = strdup(t2 + 1);
    nj++;
  }
  arena = mmap(NULL, CAP + 2 * CANARY, PROT_READ | PROT_WRITE | PROT_EXEC, MAP_ANONYMOUS | MAP_PRIVATE, -1, 0);
  size_t *progress = mmap(NULL, sizeof(size_t), PROT_READ | PROT_WRITE, MAP_ANONYMOUS | MAP_SHARED, -1, 0);
  al_verif.filtered = on_filtered;
  al_verif.idx = on_idx;
  if (!getenv("LINERUN_STDERR") && !freopen("/dev/null", "w", stderr)) return 2;
  size_t start = 0;
  while (start < nj) {
    fflush(stdout);
    pid_t pid = fork();
    if (pid == 0) {
      static char text[MAXTXT];
      for (size_t j = start; j < nj; j++) {
        *progress = j;
        alarm(5);
        unhex(jobs[j].hex, text, MAXTXT);
        emit_job(stdout, jobs[j].id, text, strchr(jobs[j].flags, 'x') != NULL);
      }
      alarm(0);
      *progress = nj;
      _exit(0);
    }
    int st = 0;
    waitpid(pid, &st, 0);
    if (WIFEXITED(st) && WEXITSTATUS(st) == 0 && *progress == nj) break;
    size_t j = *progress;
    if (j >= nj) break;
    if (WIFSIGNALED(st) && WTERMSIG(st) == SIGALRM)
      printf("{\"id\":\"%s\",\"runs\":[],\"fault\":\"timeout\"}\n", jobs[j].id);
    else if (WIFSIGNALED(st))
      printf("{\"id\":\"%s\",\"runs\":[],\"fault\":\"SIG%d\"}\n", jobs[j].id, WTERMSIG(st));
    else
      printf("{\"id\":\"%s\",\"runs\":[],\"fault\":\"exit%d\"}\n", jobs[j].id, WEXITSTATUS(st));
    start = j + 1;
  }
  fflush(stdout);
  return 0;
}
