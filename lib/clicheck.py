"""C20: asmline's outputs and exit status reflect the library result.
TLC (spec/AsmCli.tla) enumerates the flag vectors and the option state each stands for; the freshly built asmline is
run with each vector, the library itself is driven through apirun with the prescribed calls, and TLC judges the pair."""
import json, os, re, random, subprocess, time, collections, shutil, hashlib
import alverif as A
import apicheck as P

PROGRAMS = {
    "movabs": ("mov rax, 0x1122334455667788\nret\n", True),
    "sens": ("mov rax, 0x5\nlea rcx, [2*rax]\nlea rdx, [rax+rsp]\nadd rax, 0x10\nnop5\nmov rdx, 1234\nret\n", True),
    "stack": ("xor eax, eax\nadd rax, 0x7f\nshl rax, 0x4\npush rax\npop rcx\nmov rax, rcx\nret\n", True),
    "decor": ("; leading comment\nsection .text\nstart:\n  MOV RAX , 0x2a ; answer\n\n\tadd rax, 1\r\nret", True),
    "empty": ("", False),          # no program at all: nothing to print but the count (0) - from FILE and from stdin alike
    "comment": ("; nothing\n", False),
    "badfirst": ("bogus rax\nret\n", False),
    "badlast": ("mov rax, 0x5\nret\nadd rax, rxx\n", False),
    "long": ("xor eax, eax\n" + "".join("add rax, 0x%x\n" % (k + 1) for k in range(40)) + "ret\n", True),
    # more than 6000 bytes of code: the library-managed buffer grows (and may move) before the code is run or written
    "huge": ("xor eax, eax\n" + "add rax, 1\n" * 1700 + "ret\n", True),
    # a NUL byte inside the text: FILE and stdin must agree (the library's string ends there)
    "nul": ("mov eax, 0x1\n\x00add rax, rbx\nret\n", False),
    "nul2": ("mov eax, 0x1\nadd rax, \x00rbx\nadd rax, rcx\nret\n", False),
}


def corpus_programs(rnd, n):
    """programs made of lines of the TLC-enumerated corpora (C20: "all programs from the other corpora"); not executed"""
    lines = []
    for cname in ("C01", "C02d", "C02h", "C03", "C04a", "C04c", "C05", "C11s"):
        recs = [json.loads(l) for l in open(A.corpus(cname))]
        recs = [r for r in recs if r.get("status") == "Supported"]
        for r in A.sample(recs, 60, A.SEED + 20):
            lines.append(A.render(r["ast"]))
    out = {}
    for k in range(n):
        body = [rnd.choice(lines) for _ in range(rnd.randint(2, 9))]
        eol = rnd.choice(["\n", "\n", "\r\n"])
        out["corp%d" % k] = (eol.join(body) + rnd.choice(["", eol]), False)
    return out


def flag_vectors():
    key = A.spec_hash("AsmCli", "AsmMech")
    path = os.path.join(A.BUILD, "corpus", "CLIFLAGS-%s.ndjson" % key)
    if not os.path.exists(path):
        os.makedirs(os.path.dirname(path), exist_ok=True)
        tmp = path + ".tmp%d" % os.getpid()
        rc, out = A.tlc("AsmCli", env={"OUT": tmp}, tag="cliflags-%d" % os.getpid())
        if rc != 0 or not os.path.exists(tmp):
            raise A.Infra("flag enumeration failed:\n" + out[-2000:])
        os.replace(tmp, path)
    return [json.loads(l) for l in open(path)]


LONG = {"n": "nasm", "t": "strict", "s": "smart", "p": "print", "P": "printfile", "c": "chunk", "b": "breaks", "r": "return", "o": "object"}


RVARS = ("", "", "=3", "12", "rand", "rand+r", "r+rand", "rand+r=11")     # spellings of "run it": -r / --return, with LEN attached (-r=3 / --return=3, -r12), --rand (implies -r)


def argv_of(f, paths, rlast=False, rvar="", order="canon", zeros=False):
    """mode flags keep their relative order (the later one wins, as documented); the output flags are independent of each other and
    of the mode flags: `order` puts them in front ("outfirst") or reverses them ("rev")"""
    spell = f.get("spell", "short")

    def flag(ch, val=None):
        if spell == "short":
            return ["-" + ch] + ([val] if val is not None else [])
        if val is None:
            return ["--" + LONG[ch]]
        return ["--%s=%s" % (LONG[ch], val)] if spell == "long=" else ["--" + LONG[ch], val]

    def rflag():
        if rvar == "rand":
            return ["--rand"]
        if rvar == "rand+r":
            return ["--rand"] + flag("r")
        if rvar == "r+rand":
            return flag("r") + ["--rand"]
        if rvar == "rand+r=11":
            return ["--rand", "-r=11" if spell == "short" else "--return=11"]      # the combination the usage text suggests
        if rvar == "":
            return flag("r")
        return ["-r" + rvar] if spell == "short" else ["--return=" + rvar.lstrip("=")]
    mode, outs = [], []
    if f["short"]:
        mode += flag(f["short"])
    if f.get("short2"):
        mode += flag(f["short2"])
    if f["mov"]:
        mode.append("--%s-mov-imm" % f["mov"])
    if f["sib"]:
        mode.append("--%s-sib" % f["sib"])
    if f["swap"]:
        mode.append("--%s-sib-index-base-swap" % f["swap"])
    if f["nobase"]:
        mode.append("--%s-sib-no-base" % f["nobase"])
    if f["p"]:
        outs.append(flag("p"))
    # (numbers are decimal however many zeros lead them: -c 016 is 16)
    num = (lambda v: "0" + str(v)) if zeros else str
    if f["c"]:
        outs.append(flag("c", num(f["c"])))
    if f["b"]:
        outs.append(flag("b", num(f["b"])))
    if f["r"] and not rlast:
        outs.append(rflag())
    if f["out"] == "P":
        outs.append(flag("P", paths["P"]))
    elif f["out"] in ("o", "olong"):
        outs.append(flag("o", paths[f["out"]]))
    elif f["out"] == "Pbad":
        outs.append(flag("P", paths["bad"]))
    if order == "rev":
        outs.reverse()
    flat = [x for g in outs for x in g]
    a = flat + mode if order == "outfirst" else mode + flat
    if f["r"] and rlast:
        a += rflag()            # the last option: FILE (or nothing) follows it directly
    return a


# how FILE is named and where -r stands are no dimensions of the flag model (spec/AsmCli.tla judges what the flags mean): the driver
# rotates through them so that every flag vector meets some of them, and records them in the replay file
NAMINGS = ("abs", "rel", "digit", "dotrel", "symlink")
ORDERS = ("canon", "canon", "outfirst", "rev", "filefirst")


def file_arg(naming, progfiles, prog):
    base = os.path.basename(progfiles[prog])
    return {"abs": progfiles[prog], "rel": base, "digit": "64" + base, "dotrel": "./" + base, "symlink": "ln-" + base}[naming]


ROW = re.compile(r"^((?:[0-9a-f]{2} )+)\|?$")
CNT = re.compile(r"^(\d+)( instructions break a chunk boundary of \d+ bytes)?$")
VAL = re.compile(r"^the value is 0x([0-9a-f]+)$")


def parse_stdout(text):
    rows, count, value, junk = [], -1, [], []
    for ln in text.split("\n"):
        if not ln:
            continue
        m = ROW.match(ln)
        if m:
            rows.append([int(x, 16) for x in m.group(1).split()])
            continue
        m = CNT.match(ln)
        if m:
            count = int(m.group(1))
            continue
        m = VAL.match(ln)
        if m:
            value = list(int(m.group(1), 16).to_bytes(8, "little"))
            continue
        junk.append(ln)
    return rows, count, value, junk


def run(prop, tier, replay=None):
    t0 = time.time()
    A.build("plain")
    A.build_harness("linerun")
    exe = os.path.join(A.OBJ, "plain", "asmline")
    rnd = random.Random(A.SEED * 77 + 20)
    vectors = flag_vectors()
    if not replay:
        PROGRAMS.update(corpus_programs(random.Random(A.SEED * 5 + 20), 24 if tier == "quick" else 240))
    d = os.path.join(A.BUILD, "cli-%d" % os.getpid())
    os.makedirs(d, exist_ok=True)
    try:
        progfiles = {}
        for name, (text, _) in PROGRAMS.items():
            p = os.path.join(d, name + ".asm")
            open(p, "w", newline="").write(text)
            open(os.path.join(d, "64" + name + ".asm"), "w", newline="").write(text)      # the same program under a name that starts with digits
            os.symlink(name + ".asm", os.path.join(d, "ln-" + name + ".asm"))              # ... and through a symbolic link
            progfiles[name] = p
        # cases
        if replay:
            rp = json.load(open(replay))
            if "text" in rp:
                PROGRAMS[rp["prog"]] = (rp["text"], False)
            cases = [(rp["f"], rp["opt"], rp["prog"])]
        else:
            cases = []
            if tier == "thorough":
                for v in vectors:
                    cases.append((v["f"], v["opt"], "sens"))
                extra = list(vectors)
                rnd.shuffle(extra)
                for v in extra[:3000]:
                    cases.append((v["f"], v["opt"], rnd.choice(list(PROGRAMS))))
            else:
                pick = list(vectors)
                rnd.shuffle(pick)
                for v in pick[:420]:
                    cases.append((v["f"], v["opt"], "sens"))
                for v in pick[420:840]:
                    cases.append((v["f"], v["opt"], rnd.choice(list(PROGRAMS))))
            # the programs without any code, from FILE and from stdin, with every output flag (a count of 0 is still a count)
            few = [v for v in vectors if not v["f"]["r"] and v["f"]["out"] in ("", "P") and v["f"]["pre"] == "none" and not v["f"]["short2"]]
            rnd.shuffle(few)
            for v in few[:60 if tier == "quick" else 600]:
                for prog in ("empty", "comment"):
                    cases.append((v["f"], v["opt"], prog))
        cases = [c for c in cases if not (c[0]["r"] and not PROGRAMS[c[2]][1])]
        # library reference for every distinct (options, chunk, count, program)
        refs, scripts = {}, []
        L = P.Lines()
        for f, opt, prog in cases:
            k = (opt["mov"], opt["swap"], opt["nobase"], f["c"], f["b"], prog)
            if k in refs:
                continue
            sc = P.Script("ref%d" % len(refs))
            sc.create(1, "int", 0)
            sc.opt(1, "mov", opt["mov"]); sc.opt(1, "swap", opt["swap"]); sc.opt(1, "nobase", opt["nobase"])
            if f["c"]:
                sc.chunk(1, f["c"])
            text = PROGRAMS[prog][0]
            tag = "t%d" % len(sc.lines)
            if f["b"]:
                sc.lines.append("N 1 %d - %s %s" % (f["b"], tag, P.hx(text)))
            else:
                sc.lines.append("A 1 - %s %s" % (tag, P.hx(text)))
            sc.meta.append({})
            if PROGRAMS[prog][1]:
                sc.lines.append("X 1"); sc.meta.append({})
            refs[k] = sc
            scripts.append(sc)
        results = P.execute(scripts, L)
        libres = {}
        for sc, evs in results:
            a = next(e for e in evs if e["e"] in ("Asm", "Count"))
            x = next((e for e in evs if e["e"] == "Exec"), None)
            if any(e["e"] == "Fault" for e in evs) or (a["ret"] == 0 and not a["outok"]):
                raise A.Infra("library reference run failed for %s" % sc.sid)
            libres[sc.sid] = {"ret": a["ret"], "bytes": a["out"] if a["ret"] == 0 else [], "dest": a["dest"] if a["e"] == "Count" else -1,
                              "rax": x["rax"] if (x and a["ret"] == 0) else []}
        # run the CLI
        import concurrent.futures as cf

        def one(idx_case):
            idx, (f, opt, prog) = idx_case
            paths = {"P": os.path.join(d, "out%d.bin" % idx), "o": "obj%d" % idx, "olong": "obj%d" % idx + "x" * 150, "bad": os.path.join(d, "no-such-dir", "x.bin")}
            # -o gets a name relative to cwd = d: asmline refuses -o names that contain a '.', which a directory name may
            naming, rlast = NAMINGS[idx % len(NAMINGS)], (idx // 4) % 2 == 1
            rvar = RVARS[(idx // 8) % len(RVARS)]
            order = ORDERS[(idx // 3) % len(ORDERS)]
            zeros = (idx // 7) % 3 == 1
            if replay:
                naming, rlast, rvar, order = rp.get("naming", "abs"), rp.get("rlast", False), rp.get("rvar", ""), rp.get("order", "canon")
                zeros = rp.get("zeros", False)
            argv = [exe] + argv_of(f, paths, rlast, rvar, order, zeros)
            text = PROGRAMS[prog][0]
            pre_target = paths["P"] if f["out"] == "P" else (os.path.join(d, paths[f["out"]] + ".bin") if f["out"] in ("o", "olong") else None)
            if pre_target and f.get("pre", "none") != "none":
                open(pre_target, "wb").write(b"\xee" * (4096 if f["pre"] == "long" else 1))
            try:
                if f["src"] == "file":
                    fa = file_arg(naming, progfiles, prog)
                    # (FILE in front of the options: getopt moves it behind them)
                    full = [argv[0], fa] + argv[1:] if order == "filefirst" else argv + [fa]
                    r = subprocess.run(full, stdin=subprocess.DEVNULL, capture_output=True, timeout=20, cwd=d)
                else:
                    r = subprocess.run(argv, input=text.encode("latin-1"), capture_output=True, timeout=20, cwd=d)
                exitc, out = r.returncode, r.stdout.decode("latin-1")
            except subprocess.TimeoutExpired:
                exitc, out = 124, ""
            rows, count, value, junk = parse_stdout(out)
            fb = [-1]
            target = pre_target
            if target and os.path.exists(target):
                fb = list(open(target, "rb").read())
                os.unlink(target)
            k = (opt["mov"], opt["swap"], opt["nobase"], f["c"], f["b"], prog)
            return {"id": "cli%d" % idx, "f": f, "prog": prog, "exit": exitc, "rows": rows, "count": count, "value": value, "file": fb,
                    "junk": junk[:3], "lib": libres[refs[k].sid], "opt": opt, "argv": argv[1:], "naming": naming, "rlast": rlast, "rvar": rvar, "order": order, "zeros": zeros}
        with cf.ThreadPoolExecutor(max_workers=A.NCPU) as ex:
            events = list(ex.map(one, enumerate(cases)))
    finally:
        shutil.rmtree(d, ignore_errors=True)
    # TLC judges
    work = os.path.join(A.BUILD, "work")
    os.makedirs(work, exist_ok=True)
    shards = min(A.NCPU, max(1, len(events) // 200))
    bad, judged = [], 0
    procs = []
    for si in range(shards):
        part = events[si::shards]
        tr = os.path.join(work, "cli-%d-%d.ndjson" % (os.getpid(), si))
        with open(tr, "w") as f:
            for e in part:
                f.write(json.dumps({k: v for k, v in e.items() if k in ("id", "f", "exit", "rows", "count", "value", "file", "lib")}) + "\n")
        meta = os.path.join(A.BUILD, "tlc", "cli-%d-%d" % (os.getpid(), si))
        shutil.rmtree(meta, ignore_errors=True); os.makedirs(meta, exist_ok=True)
        cmd = ["java", "-XX:+UseParallelGC", "-Xmx2g", "-Xss64m", "-cp", A.JAVA_CP, "tlc2.TLC", "-noGenerateSpecTE", "-workers", "1", "-metadir", meta,
               "-config", os.path.join(A.SPEC, "AsmCli.cfg"), os.path.join(A.SPEC, "AsmCli.tla")]
        env = dict(os.environ, TRACE=tr)
        env.pop("OUT", None)
        procs.append((subprocess.Popen(cmd, cwd=A.SPEC, env=env, stdout=subprocess.PIPE, stderr=subprocess.STDOUT, text=True), tr, meta, len(part)))
    for p, tr, meta, n in procs:
        out, _ = p.communicate(timeout=3000)
        shutil.rmtree(meta, ignore_errors=True)
        m = re.search(r'<<"JUDGED", (\d+)>>', out)
        if p.returncode != 0 or not m or int(m.group(1)) != n:
            raise A.Infra("AsmCli TLC failed on %s:\n%s" % (tr, out[-3000:]))
        os.unlink(tr)
        judged += n
        nraw = sum(1 for ln in out.splitlines() if "BAD" in ln)
        got = [A.BAD_RE.match(ln) for ln in out.splitlines()]
        got = [g for g in got if g]
        if nraw != len(got):
            raise A.Infra("unparsable BAD lines in AsmCli output")
        bad += [(g.group(1), g.group(2)) for g in got]
    byid = {e["id"]: e for e in events}
    known = [e for e in A.load_known() if e["property"] == prop and e.get("status") == "open"]
    kf, viol = collections.OrderedDict(), []
    for eid, reason in bad:
        e = byid[eid]
        hit = None
        for k in known:
            if reason in k["reason"] and all(e["f"].get(a) == b or (isinstance(b, dict) and "ge" in b and e["f"].get(a, 0) >= b["ge"]) for a, b in k.get("match", {}).items()):
                hit = k
                break
        if hit:
            kf.setdefault(hit["id"], [hit, 0, e]); kf[hit["id"]][1] += 1
        else:
            viol.append((e, reason))
    for kid, (entry, n, e) in kf.items():
        print("KNOWN-FINDING: property=%s %s %s (%d runs, e.g. asmline %s < %s)" % (prop, kid, entry["what"], n, " ".join(e["argv"]), e["prog"]))
    seen = collections.Counter()
    for e, reason in viol:
        seen[reason] += 1
        if seen[reason] > 3:
            continue
        path = A.write_replay(prop, "%s-%s" % (e["id"], reason), {"property": prop, "reason": reason, "f": e["f"], "opt": e["opt"], "prog": e["prog"], "text": PROGRAMS[e["prog"]][0], "naming": e["naming"], "rlast": e["rlast"], "rvar": e["rvar"], "order": e["order"], "zeros": e["zeros"], "observed": e})
        print("VIOLATION property=%s replay=%s  (%s: asmline %s  program %s from %s)" % (prop, path, reason, " ".join(e["argv"]), e["prog"], e["f"]["src"]))
    for r, n in seen.items():
        if n > 3:
            print("  (+%d more runs with %s)" % (n - 3, r))
    wall = time.time() - t0
    distinct = len({(json.dumps(e["f"], sort_keys=True), e["prog"]) for e in events})
    cov = {"evaluations": judged, "distinct_nontrivial": distinct,
           "rule": "TLC enumerates the flag vectors of spec/AsmCli.tla (%d: mode flags x -p x -P/-o/unwritable x -c x -b x -r x stdin/FILE, conflicting mode flags excluded) with the option "
                   "state each stands for; asmline (freshly built) runs each selected vector on the programs %s; the library is driven through apirun with the prescribed setter calls; "
                   "TLC (AsmCli.tla: Why) compares exit status, -P/-o file, -p hex rows, -b count and -r value with the library's result. thorough: every vector on one program + 3000 "
                   "random (vector, program) pairs; quick: 840 seeded pairs. distinct_nontrivial = distinct (vector, program) pairs." % (len(vectors), sorted(PROGRAMS)),
           "samples": [{"argv": e["argv"], "src": e["f"]["src"], "prog": e["prog"], "exit": e["exit"], "rows": e["rows"][:3], "count": e["count"], "lib": e["lib"]} for e in events[:3]],
           "exhaustive": False, "known_findings": {k: v[1] for k, v in kf.items()}, "failing": len(bad)}
    if not replay:
        A.write_evidence(prop, tier, "exploration", cov, wall, len(viol),
                         ["the stdout parser recognises hex rows, the count line and the value line", "the library reference is the library's own result (validated separately by C01-C19)"])
    print("%s %s: %d CLI runs judged, %d failing, %d known, %d violations, %.1fs" % (prop, tier, judged, len(bad), sum(v[1] for v in kf.values()), len(viol), wall))
    return 1 if viol else 0
