"""Trace validation of executions the repository already has: its seven C test programs and asmline runs over its own
test/*.asm files are linked against harness/recshim.c (link-time --wrap of every public function, client code unmodified),
their API histories are recorded in the event format of spec/ApiTrace.tla and judged by TLC like the harness's own histories.

The solo code of every distinct line of every recorded call is learned through linerun (12 option combinations); lines that
succeed without emitting anything (blank, comment, label, directive) are dropped from the call's program, failing lines
get the empty code."""
import json, os, re, glob, subprocess, collections, random, shutil
import alverif as A

WRAPPED = ["asm_create_instance", "asm_destroy_instance", "assemble_str", "asm_assemble_str", "assemble_file", "asm_assemble_file",
           "assemble_string_counting_chunks", "asm_assemble_string_counting_chunks", "asm_assemble_file_counting_chunks",
           "asm_set_chunk_size", "asm_set_debug", "asm_set_offset", "asm_create_bin_file", "asm_mov_imm", "asm_sib_index_base_swap",
           "asm_sib_no_base", "asm_sib", "asm_set_all"]

# asmline invocations over the repository's test/*.asm files (no execution: the files are not all callable functions)
CLI_FLAGS = [[], ["-c", "16"], ["-b", "8"], ["-n"], ["-t"], ["-s", "-c", "8"], ["--nasm-mov-imm", "--strict-sib"], ["--strict-mov-imm", "-b", "16"],
             ["-c", "5", "--nasm-sib-index-base-swap"], ["--smart-mov-imm", "--strict-sib-no-base", "-c", "32"]]


def build_clients():
    """compile every test/*.c and tools/asmline.c against the hook build of the library with the recorder linked in"""
    d = os.path.join(A.OBJ, "plain")
    flags = open(os.path.join(d, "flags")).read().split()
    wrap = "-Wl," + ",".join("--wrap=" + w for w in WRAPPED)
    out = {}
    srcs = sorted(glob.glob(os.path.join(A.REPO, "test", "*.c"))) + [os.path.join(A.REPO, "tools", "asmline.c")]
    procs = []
    for src in srcs:
        name = os.path.splitext(os.path.basename(src))[0]
        exe = os.path.join(d, "rec_" + name)
        cmd = flags + ["-std=gnu11", "-w", "-DASSEMBLYLINE_VERIF", "-I" + os.path.join(A.REPO, "src"), "-I" + A.REPO, src,
                       os.path.join(A.VERIF, "harness", "recshim.c"), os.path.join(d, "libal.a"), "-o", exe, wrap]
        procs.append((name, exe, subprocess.Popen(cmd, stdout=subprocess.PIPE, stderr=subprocess.STDOUT, text=True)))
    for name, exe, p in procs:
        o, _ = p.communicate()
        if p.returncode != 0:
            raise A.Infra("recorder build failed for %s:\n%s" % (name, o[-2000:]))
        out[name] = exe
    return out


def split_lines(text):
    """the library's own line splitting: a line ends at LF or CR (or the end of the text)"""
    return [x for x in re.split(r"[\n\r]", text)]


def record(tier, rnd):
    """run the clients; returns list of (sid, [events])"""
    clients = build_clients()
    work = os.path.join(A.BUILD, "work", "rec-%d" % os.getpid())
    shutil.rmtree(work, ignore_errors=True)
    os.makedirs(work)
    runs = []
    for name, exe in sorted(clients.items()):
        if name != "asmline":
            runs.append(("test-" + name, [exe], None))
    asm = sorted(glob.glob(os.path.join(A.REPO, "test", "*.asm")))
    if tier == "quick":
        small = [f for f in asm if os.path.getsize(f) < 30000]
        rnd.shuffle(small)
        asm = sorted(small[:10])
    for k, f in enumerate(asm):
        fl = CLI_FLAGS if tier == "thorough" else [CLI_FLAGS[k % len(CLI_FLAGS)], CLI_FLAGS[(k + 3) % len(CLI_FLAGS)]]
        for j, flags in enumerate(fl):
            base = os.path.splitext(os.path.basename(f))[0]
            runs.append(("cli-%s-%d" % (base, CLI_FLAGS.index(flags)), [clients["asmline"]] + flags + ["-P", os.path.join(work, "%s-%d.bin" % (base, j)), f], None))
        # the same file through stdin
        runs.append(("cli-%s-stdin" % os.path.splitext(os.path.basename(f))[0], [clients["asmline"], "-c", "8"], f))
    procs = []
    sem = A.NCPU
    out = []

    def start(r):
        sid, argv, stdin = r
        rec = os.path.join(work, sid + ".ndjson")
        p = subprocess.Popen(argv, cwd=A.REPO, env=dict(os.environ, REC_OUT=rec), stdin=open(stdin) if stdin else subprocess.DEVNULL,
                             stdout=subprocess.DEVNULL, stderr=subprocess.DEVNULL)
        return (sid, rec, p)
    pending = list(runs)
    live = []
    while pending or live:
        while pending and len(live) < sem:
            live.append(start(pending.pop(0)))
        sid, rec, p = live.pop(0)
        try:
            p.wait(timeout=300)
        except subprocess.TimeoutExpired:
            p.kill()
            raise A.Infra("recorded client %s timed out" % sid)
        evs = [json.loads(l) for l in open(rec)] if os.path.exists(rec) else []
        if p.returncode < 0:
            # the client died on a signal: the call in progress never logged its event, the trace would just look short
            evs.append({"e": "Fault", "signal": -p.returncode})
        out.append((sid, evs, p.returncode))
    shutil.rmtree(work, ignore_errors=True)
    return out


class Sc:
    """minimal stand-in for apicheck.Script in results lists"""

    def __init__(self, sid, lines):
        self.sid, self.lines, self.meta = sid, lines, []


def prepare(recorded):
    """derive each call's program (keys of distinct lines) and the code table; returns (results, codes)"""
    texts = collections.OrderedDict()
    for sid, evs, rc in recorded:
        for e in evs:
            if e["e"] in ("Asm", "Count"):
                e["rawtext"] = bytes.fromhex(e.pop("text")).decode("latin-1")
                for ln in split_lines(e["rawtext"]):
                    texts.setdefault(ln, "R%d" % len(texts))
    recs = [{"id": k, "prop": "X", "status": "Unconstrained", "text": t} for t, k in texts.items()]
    ev = A.run_lines(recs, ctx="solo0", modes="plain", opts="all") if recs else []
    codes, decor = {}, set()
    for e in ev:
        per, okempty = [None] * 12, 0
        for r in e["runs"]:
            for o in r["o"]:
                per[o] = r["bytes"] if r["ret"] == 0 else []
                okempty += 1 if (r["ret"] == 0 and not r["bytes"]) else 0
        if "fault" in e or any(p is None for p in per):
            raise A.Infra("could not learn the solo code of a recorded line: %r" % e["text"][:80])
        if okempty == 12:
            decor.add(e["id"])
        elif okempty:
            raise A.Infra("recorded line %r emits nothing under some options only" % e["text"][:80])
        else:
            codes[e["id"]] = per
    results = []
    for sid, evs, rc in recorded:
        out = []
        for e in evs:
            e["sid"] = sid
            if e["e"] in ("Asm", "Count"):
                raw = e.pop("rawtext")
                e["prog"] = [texts[ln] for ln in split_lines(raw) if texts[ln] not in decor]
                if e.pop("nofile"):
                    e["expectfail"] = True
                e["nlines"] = len(e["prog"])
            out.append(e)
        out.append({"e": "Reset", "sid": sid})
        results.append((Sc(sid, ["recorded client run, exit status %s" % rc]), out))
    return results, codes
