"""C18: independent instances used concurrently from different threads.
Model: spec/AsmThreads.tla instantiated with the table accesses observed on the current tree; TLC explores all interleavings.
Binding: complete schedules (TLC simulation + block schedules) replayed through the table hook's yield points and validated by
spec/ThreadTrace.tla; free-running threads under ThreadSanitizer compared with the single-threaded reference."""
import json, os, re, random, subprocess, time, collections, shutil, glob
import alverif as A

ALLOWED_WRITABLE = {"instr_table_index", "opd_format_table_index", "al_verif", "FIXED_NOP_LENGTH"}


def inventory():
    """writable symbols of the freshly built library objects (assumption check of the model's coverage)"""
    out = subprocess.run(["nm", os.path.join(A.OBJ, "plain", "libal.a")], capture_output=True, text=True).stdout
    syms = set()
    for ln in out.splitlines():
        m = re.match(r"^[0-9a-f]+ ([bBdDcC]) (\S+)$", ln)
        if m and not m.group(2).startswith("__compound_literal"):
            syms.add(m.group(2))
    return sorted(syms), sorted(syms - ALLOWED_WRITABLE)


def tlc_threads(cfgname, obs, nt, rounds, extra=(), props=True):
    with open(os.path.join(A.SPEC, cfgname + ".cfg"), "w") as f:
        f.write("SPECIFICATION Spec\nCONSTANTS\n NT = %d\n ROUNDS = %d\nVIEW View\n" % (nt, rounds))
        if props:
            f.write("INVARIANT LookupSeesFinal\n")
        else:
            f.write("ACTION_CONSTRAINT EmitSchedule\n")
    try:
        return A.tlc("AsmThreads", cfg=cfgname, env={"OBS": obs}, workers=8 if props else 1, xmx="6g", extra=list(extra), tag=cfgname, timeout=2400)
    finally:
        os.unlink(os.path.join(A.SPEC, cfgname + ".cfg"))


def run(prop, tier, replay=None):
    t0 = time.time()
    A.build("plain", "tsan")
    wrap = ["-Wl,--wrap=open,--wrap=fstat,--wrap=read,--wrap=close,--wrap=mmap,--wrap=mremap,--wrap=munmap,--wrap=fopen,--wrap=fwrite,--wrap=fclose"]
    exe = A.build_harness("threadrun", extra=wrap)
    # (the race detector must see the real mapping calls: wrapping mmap/munmap hides them from its interceptors and a buffer address
    #  reused by another thread is then reported as a race)
    exe_tsan = A.build_harness("threadrun", variant="tsan", extra=["-Wl,--wrap=open,--wrap=fstat,--wrap=read,--wrap=close,--wrap=fopen,--wrap=fwrite,--wrap=fclose", "-DNO_MAP_WRAP"])
    work = os.path.join(A.BUILD, "work")
    os.makedirs(work, exist_ok=True)
    pid = os.getpid()
    thrdir = os.path.join(work, "thr-%d" % pid)
    os.makedirs(thrdir, exist_ok=True)
    os.environ["THR_DIR"] = thrdir
    viol, notes = [], []
    # 0. shared-state inventory
    syms, unknown = inventory()
    for s in unknown:
        print("SHARED-STATE-DRIFT: writable symbol %s is not in the inventory the thread model was built for (recorded in the evidence; judged by the TSan runs)" % s)
    # 1. observe the table accesses of every work item on the current tree
    obs = os.path.join(work, "thr-obs-%d.ndjson" % pid)
    r = subprocess.run([exe, "observe"], capture_output=True, text=True, timeout=60)
    if r.returncode != 0 or not r.stdout.strip():
        raise A.Infra("threadrun observe failed")
    open(obs, "w").write(r.stdout)
    items = [json.loads(l) for l in r.stdout.splitlines()]
    nacc = [len(it["acc"]) for it in items]
    nitems = len(items)
    # 2. TLC: all interleavings
    nt, rounds = (2, 2) if tier == "quick" else (3, 2)
    rc, out = tlc_threads("MC_Threads_%d" % pid, obs, nt, rounds, extra=["-deadlock"])
    m = re.search(r"(\d+) states generated, (\d+) distinct states found", out)
    if not m:
        raise A.Infra("thread model did not finish:\n" + out[-2000:])
    stats = {"states": int(m.group(2)), "transitions": int(m.group(1)), "threads": nt, "rounds": rounds}
    cex = None
    if "is violated" in out:
        hm = re.findall(r"hist = <<([0-9, ]*)>>", out)
        cex = [int(x) for x in hm[-1].replace(" ", "").split(",") if x] if hm else []
        notes.append("model: LookupSeesFinal violated; candidate schedule of length %d" % len(cex))
    # 3. schedules: TLC simulation (complete behaviours) + block schedules from the access counts
    rnd = random.Random(A.SEED * 13 + 18)
    nsim = 30 if tier == "quick" else 1500
    rc2, out2 = tlc_threads("SIM_Threads_%d" % pid, obs, 2, 2, extra=["-deadlock", "-simulate", "num=%d" % nsim, "-depth", "400", "-seed", str(A.SEED)], props=False)
    scheds = []
    for ln in out2.splitlines():
        if ln.startswith('"SCHED|'):
            scheds.append(json.loads(json.loads(ln)[6:]))
    if len(scheds) < nsim // 2:
        raise A.Infra("TLC simulation produced only %d schedules:\n%s" % (len(scheds), out2[-1500:]))
    total = {t: sum(nacc[(t + r) % nitems] for r in range(2)) for t in (1, 2)}
    step = 1 if tier == "thorough" else 2
    for k in range(0, total[1] + 1, step):
        scheds.append([1] * k + [2] * total[2] + [1] * (total[1] - k))
        scheds.append([2] * k + [1] * total[1] + [2] * (total[2] - k))
    # two-split schedules around the OS calls: A runs up to (just behind) one of its OS calls, B runs up to one of its own, A finishes,
    # B finishes - the shape needed when A's second half acts on something B acquired in between (a descriptor number, a mapping)
    def seq(t):
        out = []
        for r in range(2):
            out += items[(t + r) % nitems]["acc"]
        return out
    osp = {t: [k + 1 for k, a in enumerate(seq(t)) if a["t"] == 2] for t in (1, 2)}
    lim = 400 if tier == "quick" else 4000
    two = []
    for a, b in ((1, 2), (2, 1)):
        for k in osp[a]:
            for j in osp[b]:
                two.append([a] * k + [b] * j + [a] * (total[a] - k) + [b] * (total[b] - j))
    if len(two) > lim:
        rnd.shuffle(two)
        two = two[:lim]
    scheds += two
    if cex is not None:
        scheds.insert(0, cex)
    inp = "\n".join(" ".join(str(x) for x in s) for s in scheds) + "\n"
    r = subprocess.run([exe, "sched", "2", "2"], input=inp, capture_output=True, text=True, timeout=600)
    if r.returncode != 0:
        raise A.Infra("threadrun sched failed (exit %d)" % r.returncode)
    events = [json.loads(l) for l in r.stdout.splitlines()]
    # 4. free-running threads under ThreadSanitizer
    tsan_events = []
    for n in ((2, 4, 16) if tier == "thorough" else (2, 8)):
        logp = os.path.join(work, "tsan-%d-%d" % (pid, n))
        for old in glob.glob(logp + "*"):
            os.unlink(old)
        rr = subprocess.run([exe_tsan, "free", str(n), str(40 if tier == "quick" else 64)], capture_output=True, text=True, timeout=900,
                            env=dict(os.environ, TSAN_OPTIONS="exitcode=66 log_path=%s" % logp))
        reports = 0
        for lf in glob.glob(logp + "*"):
            reports += open(lf, errors="replace").read().count("WARNING: ThreadSanitizer")
            os.unlink(lf)
        tsan_events += [json.loads(l) for l in rr.stdout.splitlines() if l.startswith("{")]
        tsan_events.append({"e": "Tsan", "threads": n, "reports": reports, "exit": rr.returncode})
        tsan_events.append({"e": "Reset"})
    # 4b. free-running stress on the plain build with every work item: a third of the threads grow a library-managed buffer over and
    #     over, the others create short-lived library-managed instances; crashes and results that differ from running alone
    for n in ((9, 15) if tier == "thorough" else (9,)):
        rounds = 6000 if tier == "thorough" else 2500
        rr = subprocess.run([exe, "stress", str(n), str(rounds)], capture_output=True, text=True, timeout=900)
        st = [json.loads(l) for l in rr.stdout.splitlines() if l.startswith('{"e":"Stress"')]
        tsan_events.append({"e": "Tsan", "threads": n, "reports": st[0]["mismatches"] if st else 0, "exit": rr.returncode, "stress_rounds": rounds})
        tsan_events.append({"e": "Reset"})
    # 4c. the one window the stress cannot be relied on to hit: right behind a growth that MOVED a library-managed buffer, another
    #     thread creates a library-managed instance (the vacated range is offered to its mmap as a placement hint) and assembles into it;
    #     then the first thread goes on, then the second reads its code back: both must obtain what they obtain alone
    rr = subprocess.run([exe, "pair", "20" if tier == "quick" else "200"], capture_output=True, text=True, timeout=300)
    st = [json.loads(l) for l in rr.stdout.splitlines() if l.startswith('{"e":"Stress"')]
    tsan_events.append({"e": "Tsan", "threads": 2, "reports": st[0]["mismatches"] if st else 0, "exit": rr.returncode, "pair_moves": st[0]["moves"] if st else -1})
    tsan_events.append({"e": "Reset"})
    # 4d. binary output from two threads: thread 1 held behind fopen / behind fwrite (before the flushing fclose) of asm_create_bin_file
    #     while thread 2 writes the code of its own instance to its own file; both files must be what they are when written alone
    rr = subprocess.run([exe, "binpair"], capture_output=True, text=True, timeout=300, env=dict(os.environ, THR_DIR=thrdir))
    st = [json.loads(l) for l in rr.stdout.splitlines() if l.startswith('{"e":"Stress"')]
    tsan_events.append({"e": "Tsan", "threads": 2, "reports": st[0]["mismatches"] if st else 0, "exit": rr.returncode, "binpair_windows": st[0]["rounds"] if st else -1})
    tsan_events.append({"e": "Reset"})
    # 5. TLC validates everything
    tr = os.path.join(work, "thr-trace-%d.ndjson" % pid)
    allev = events + tsan_events
    with open(tr, "w") as f:
        for e in allev:
            f.write(json.dumps(e) + "\n")
    rc3, out3 = A.tlc("ThreadTrace", env={"OBS": obs, "TRACE": tr}, xmx="4g", tag="thrtrace-%d" % pid, timeout=2400)
    m3 = re.search(r'<<"JUDGED", (\d+)>>', out3)
    if rc3 != 0 or not m3 or int(m3.group(1)) != len(allev):
        raise A.Infra("ThreadTrace failed:\n" + out3[-3000:])
    bad = [A.BAD_RE.match(l) for l in out3.splitlines()]
    bad = [b for b in bad if b]
    if sum(1 for l in out3.splitlines() if "BAD" in l) != len(bad):
        raise A.Infra("unparsable BAD lines in ThreadTrace output")
    os.unlink(tr); os.unlink(obs)
    shutil.rmtree(thrdir, ignore_errors=True)
    drift, reasons = collections.Counter(), collections.Counter()
    for b in bad:
        reason = b.group(2)
        if reason.startswith("mech:"):
            drift[reason] += 1
        else:
            reasons[reason.split(":", 1)[1]] += 1
    for rs, n in reasons.items():
        path = A.write_replay(prop, rs, {"property": prop, "reason": rs, "count": n, "schedules": scheds[:3], "notes": notes})
        print("VIOLATION property=%s replay=%s  (%s: %d events; %s)" % (prop, path, rs, n, "; ".join(notes)))
        viol.append(rs)
    if cex is not None and not reasons:
        notes.append("the model counterexample did not reproduce on the real code")
        print("MODEL-DRIFT: the thread model admits a bad lookup that the code did not show under the replayed schedule")
    for rs, n in drift.items():
        print("MODEL-DRIFT: %s (%d events)" % (rs, n))
    nexec = sum(1 for e in allev if e["e"] == "Reset")
    wall = time.time() - t0
    cov = {"states": stats["states"], "transitions": stats["transitions"], "traces_validated_against_impl": nexec - (1 if drift else 0) * 0,
           "samples": [{"schedule": scheds[0][:40], "first_events": events[:3]}, {"tsan": [e for e in tsan_events if e["e"] == "Tsan"]}],
           "evaluations": len(allev), "distinct_nontrivial": len({tuple(s) for s in scheds}),
           "rule": "TLC explores every interleaving of %d threads x %d rounds of the table accesses observed on the current tree (LookupSeesFinal). Binding: %d complete schedules "
                   "(TLC -simulate behaviours and block schedules 'A runs k accesses, B runs everything, A resumes' for every k) replayed on the real library with the table hook as "
                   "yield point, every access and every per-thread result validated by spec/ThreadTrace.tla; free-running threads under ThreadSanitizer; nm inventory of writable symbols. "
                   "distinct_nontrivial = distinct schedules replayed." % (nt, rounds, len(scheds)),
           "model": stats, "schedules_replayed": len(scheds), "accesses_per_item": nacc, "writable_symbols": syms, "shared_state_drift": unknown,
           "model_drift": dict(drift), "notes": notes, "exhaustive": tier == "thorough"}
    if not replay:
        A.write_evidence(prop, tier, "model_checking", cov, wall, len(viol),
                         ["the model covers the hooked accesses only; other shared state is covered by the nm inventory and the TSan runs (observations, not proofs)",
                          "the turn-based scheduler serialises exactly the hooked accesses"])
    print("%s %s: %d model states, %d schedules replayed, %d events judged, %d violations, %.1fs" % (prop, tier, stats["states"], len(scheds), len(allev), len(viol), wall))
    return 1 if viol else 0
