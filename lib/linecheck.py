"""Line-level checks (C01-C05, C10, C11, C16): TLC-enumerated corpora -> real library -> TLC monitor."""
import json, os, time, collections
import alverif as A

# property -> list of corpus plans: (corpus, ctx, modes, quick sample size or None, thorough sample size or None)
PLANS = {
    "C01": [("C01", "solo0,solo37", "plain", 9000, None)],
}
LEVEL = {p: "exploration" for p in ("C01", "C02", "C03", "C04", "C05", "C10", "C11", "C16")}


def attribute(reason, rec):
    if len(reason) > 4 and reason[0] == "C" and reason[3] == ":":
        return reason[:3], reason[4:]
    return rec.get("prop", "X"), reason


def judge(prop, events):
    """returns list of (rec, reason, detail) attributed to prop"""
    bad, judged = A.monitor(events)
    byid = {e["id"]: e for e in events}
    mine, others = [], collections.Counter()
    for (eid, reason, oi, ctx, mode) in bad:
        rec = byid[eid]
        p, r = attribute(reason, rec)
        if p == prop:
            mine.append((rec, r, {"opt": oi, "ctx": ctx, "mode": mode}))
        else:
            others[p + ":" + r] += 1
    return mine, others, judged


def triage(prop, failures):
    """split failures into known findings and violations"""
    known = A.load_known()
    kf, viol = collections.OrderedDict(), []
    for rec, reason, detail in failures:
        hit = None
        for e in known:
            if A.match_known(e, prop, reason, rec, detail):
                hit = e
                break
        if hit:
            kf.setdefault(hit["id"], [hit, 0, rec])
            kf[hit["id"]][1] += 1
        else:
            viol.append((rec, reason, detail))
    return kf, viol


def slim(rec):
    return {k: v for k, v in rec.items() if k in ("id", "prop", "status", "ast", "text", "flags", "cls")}


def run(prop, tier, replay=None):
    t0 = time.time()
    A.build("plain")
    A.build_harness("linerun")
    plans = PLANS[prop]
    all_events, exhaustive, nclasses = [], True, set()
    failures, others, judged = [], collections.Counter(), 0
    samples = []
    if replay:
        rp = json.load(open(replay))
        plans = [("replay", rp.get("ctx", "solo0,solo37,first,mid,last"), rp.get("modes", "plain,fit,count"), None, None)]
    for (cname, ctx, modes, nq, nt) in plans:
        if replay:
            recs = [rp["record"]]
        else:
            recs = A.load_corpus(A.corpus(cname))
            n = nq if tier == "quick" else nt
            if n is not None and n < len(recs):
                exhaustive = False
            recs = A.sample(recs, n, A.SEED)
        for r in recs:
            r.pop("runs", None)
        events = A.run_lines(recs, ctx=ctx, modes=modes)
        f, o, j = judge(prop, events)
        failures += f
        others.update(o)
        judged += j
        for e in events:
            nclasses.add(A.klass(e))
        for e in events[:2] + events[-1:]:
            samples.append({"text": e["text"], "status": e["status"],
                            "runs": [{"opts": r["o"], "ctx": r["ctx"], "mode": r["mode"], "ret": r["ret"], "bytes": bytes(r["bytes"]).hex()} for r in e["runs"][:2]]})
        all_events += [(cname, ctx, modes)]
    kf, viol = triage(prop, failures)
    # confirm violations by re-running exactly those records (a rejection is reported only if it repeats)
    confirmed = []
    if viol and not replay:
        again = [slim(v[0]) for v in viol]
        uniq = {r["id"]: r for r in again}
        ctxs = ",".join(sorted({c for (_, c, _) in all_events for c in c.split(",")}))
        modes = ",".join(sorted({m for (_, _, m) in all_events for m in m.split(",")}))
        ev2 = A.run_lines(list(uniq.values()), ctx=ctxs, modes=modes)
        f2, _, _ = judge(prop, ev2)
        rep = {(r["id"], reason) for (r, reason, _) in f2}
        confirmed = [v for v in viol if (v[0]["id"], v[1]) in rep]
    else:
        confirmed = viol
    for kid, (entry, n, rec) in kf.items():
        print("KNOWN-FINDING: property=%s %s %s (%d inputs, e.g. `%s`)" % (prop, kid, entry["what"], n, rec.get("text", "")))
    seen = collections.Counter()
    for rec, reason, detail in confirmed:
        key = (rec.get("ast", {}).get("mn", ""), reason)
        seen[key] += 1
        if seen[key] > 2:
            continue
        path = A.write_replay(prop, "%s-%s" % (rec["id"], reason.replace(":", "_")),
                              {"property": prop, "reason": reason, "detail": detail, "record": slim(rec),
                               "observed": rec.get("runs"), "ctx": detail.get("ctx") or "solo0", "modes": detail.get("mode") or "plain"})
        print("VIOLATION property=%s replay=%s  (%s: `%s`)" % (prop, path, reason, rec.get("text", "")))
    for key, n in seen.items():
        if n > 2:
            print("  (+%d more violations of kind %s/%s)" % (n - 2, key[0], key[1]))
    wall = time.time() - t0
    cov = {"evaluations": judged, "distinct_nontrivial": len(nclasses),
           "rule": "TLC enumerates the corpus set of spec/GenCorpus.tla (%s); every record is rendered, assembled by the freshly built library under the 12 option "
                   "combinations and judged by TLC (EncTrace.tla: DecodeOne(bytes) must satisfy MatchWhy(ast, opts)). A case is one input line; distinct_nontrivial counts distinct "
                   "(mnemonic, operand kinds, widths, low/high/legacy-high register pattern, literal spelling) classes among them." % ", ".join(c for c, _, _ in all_events),
           "samples": samples[:6], "exhaustive": bool(exhaustive and not replay),
           "corpora": [{"corpus": c, "ctx": x, "modes": m} for c, x, m in all_events],
           "known_findings": {k: v[1] for k, v in kf.items()},
           "failing_events": len(failures), "violations_confirmed": len(confirmed),
           "other_property_observations": dict(others)}
    if not replay:
        A.write_evidence(prop, tier, LEVEL[prop], cov, wall, len(confirmed),
                         ["TLC evaluates the oracle correctly", "the renderer lib/alverif.py:render prints the AST in the documented syntax (cross-checked by the nasm self-test)",
                          "linerun's two-pattern diff sees every written byte", "X86.tla follows the Intel SDM for the covered forms (validated against nasm)"])
    print("%s %s: judged %d events, %d classes, %d failing, %d known, %d violations, %.1fs" %
          (prop, tier, judged, len(nclasses), len(failures), sum(v[1] for v in kf.values()), len(confirmed), wall))
    return 1 if confirmed else 0
