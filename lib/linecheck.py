"""Line-level checks (C01-C05, C10, C11, C16): TLC-enumerated corpora -> real library -> TLC monitor."""
import json, os, time, collections, random
import alverif as A
import style as S

ALLCTX = "solo0,first,mid,last"
ALLMODES = "plain,fit,count"


def is_movimm(r):
    a = r.get("ast")
    return bool(a and a["mn"] == "mov" and len(a["opds"]) == 2 and a["opds"][0]["k"] == "r" and a["opds"][0]["w"] == 64 and a["opds"][1]["k"] == "i")


FILTERS = {"movimm": is_movimm}

# property -> list of plans: (corpus, ctx, modes, quick sample size, thorough sample size, filter name, thorough-only)
PLANS = {
    "C01": [("C01", "solo0,solo37", "plain", 9000, None, None, False), ("C01k", "solo0", "plain", None, None, None, False), ("C01", "solo37", "fit", 1500, None, None, False),
            ("C01", "edge", "fit", 1500, 12000, None, False, 16)],
    "C02": [(c, "solo0", "plain", 1400, None, None, False) for c in ("C02a", "C02b", "C02c", "C02d", "C02e", "C02f", "C02g", "C02h", "C02i", "C02j")]
           + [("C02k", "solo0", "plain", 2500, None, None, False), ("C02l", "solo0", "plain", 2500, None, None, False), ("C02m", "solo0", "plain", 1500, None, None, False)]
           + [("C02d", "solo0,mid,last", "plain,count", 500, 3000, None, False), ("C02h", "solo37", "fit", 700, 4000, None, False), ("C02g", "solo37", "fit", 400, 2000, None, False),
              ("C02k", "edge", "fit", 800, None, None, False, 16), ("C02e", "edge", "fit", 500, 3000, None, False, 16)],
    "C03": [("C03", "solo0", "plain", 7000, None, None, False), ("C03k", "solo0", "plain", None, None, None, False),
            # the same lines inside a program, in counting mode and where chunk fitting has to pad and assemble them again
            ("C03", "solo0,mid,last", "plain,count", 700, 4000, None, False), ("C03", "solo37", "fit", 900, 5000, None, False),
            ("C03", "edge", "fit", 1500, 9000, None, False, 16)],
    "C04": [("C04a", "solo0", "plain", 3000, None, None, False), ("C04b", "solo0", "plain", 2500, None, None, False),
            ("C04c", "solo0", "plain", 2000, None, None, False),
            # chunk fitting assembles an instruction a second time after padding: the same forms at an offset where they do not fit the chunk
            ("C04a", "solo37", "fit", 1200, None, None, False), ("C04b", "solo37", "fit", 800, None, None, False), ("C04c", "solo37", "fit", 600, None, None, False),
            ("C04a", "edge", "fit", 800, 6000, None, False, 16), ("C04c", "edge", "fit", 500, 3000, None, False, 16),
            ("C04d", "solo0", "plain", 0, None, None, True), ("C04e", "solo0", "plain", 0, None, None, True),
            ("C04f", "solo0", "plain", 0, None, None, True)],
    "C05": [("C05", "solo0,solo37", "plain", 6000, None, None, False), ("C05m", "solo0", "plain", 2500, None, None, False),
            ("C05", "solo0,mid,last", "plain,count", 600, 4000, None, False), ("C05", "solo37", "fit", 800, 5000, None, False),
            # a 2-byte branch fits everywhere except on the last byte of a chunk
            ("C05", "edge", "fit", 1500, None, None, False, 16), ("C05", "edge", "fit", 700, 5000, None, False, 5)],
    "C10": [("C10x", ALLCTX, ALLMODES, None, None, None, False), ("C10a", ALLCTX, ALLMODES, 4000, None, None, False),
            ("C10b", "solo0,mid", ALLMODES, 800, None, None, False), ("C10c", "solo0,mid", ALLMODES, 800, None, None, False),
            ("C10d", "solo0,mid", ALLMODES, 800, None, None, False)],
    "C11": [("C03", "solo0", "plain", None, None, "movimm", False), ("C11s", "solo0", "plain", 2500, None, None, False),
            ("C11t", "solo0", "plain", 1500, None, None, False),
            ("C01", "solo0", "plain", 2500, 20000, None, False), ("C02d", "solo0", "plain", 1200, None, None, False),
            ("C02b", "solo0", "plain", 800, None, None, False),
            ("C04c", "solo0", "plain", 800, None, None, False), ("C05", "solo0", "plain", 1200, None, None, False),
            ("C03", "solo0", "plain", 1500, None, None, False)],
}
LEVEL = {p: "exploration" for p in ("C01", "C02", "C03", "C04", "C05", "C10", "C11", "C16")}


def attribute(reason, rec):
    if len(reason) > 4 and reason[0] == "C" and reason[3] == ":":
        return reason[:3], reason[4:]
    return rec.get("prop", "X"), reason


def sval(neg, mag):
    v = A.le(mag)
    return -v if neg else v


def features(rec, reason, detail):
    """flat feature dictionary of a failing event, the vocabulary of known_findings.json"""
    f = {"reason": reason, "status": rec.get("status"), "text": rec.get("text"), "cls": rec.get("cls"),
         "ctx": detail.get("ctx"), "mode": detail.get("mode"), "opt": detail.get("opt"), "style": detail.get("ctx")}
    oi = detail.get("opt")
    if isinstance(oi, int) and oi >= 0:
        f["opt.mov"] = ["STRICT", "NASM", "SMART"][oi // 4]
        f["opt.swap"] = "NASM" if (oi // 2) % 2 else "STRICT"
        f["opt.nobase"] = "NASM" if oi % 2 else "STRICT"
    ast = rec.get("ast")
    if not ast:
        return f
    f["mn"] = ast["mn"]
    kinds = ""
    for j, o in enumerate(ast["opds"], 1):
        k = o["k"]
        if k == "r":
            kinds += {"g": "r", "m": "r", "x": "v", "y": "y"}[o["f"]]
            f.update({"o%d.f" % j: o["f"], "o%d.w" % j: o["w"], "o%d.n" % j: o["n"], "o%d.h" % j: o["h"], "o%d.hi" % j: o["n"] >= 8})
        elif k == "m":
            kinds += "m"
            d = sval(o["neg"], o["dm"]) if o["hasd"] else 0
            f.update({"m.pos": j, "m.w": o["w"], "m.a": o["a"], "m.b": o["b"], "m.i": o["i"], "m.s": o["s"], "m.kw": o["kw"], "m.hasd": o["hasd"],
                      "m.neg": o["neg"] and o["hasd"], "m.far": o["far"], "m.nobase": o["b"] < 0 <= o["i"], "m.abs": o["b"] < 0 and o["i"] < 0,
                      "m.spidx": o["i"] == 4, "m.bhi": o["b"] >= 8, "m.ihi": o["i"] >= 8, "m.disp": d, "m.ord": o["ord"],
                      "m.b7": o["b"] % 8 if o["b"] >= 0 else -1, "m.i7": o["i"] % 8 if o["i"] >= 0 else -1})
        else:
            kinds += "i"
            v = sval(o["neg"], o["mag"])
            f.update({"i.pos": j, "i.neg": o["neg"], "i.val": v, "i.u": v % (1 << 64), "i.radix": o["radix"], "i.digits": o.get("digits", 0), "i.kw": o.get("kw", "")})
        f["o%d.k" % j] = k
    f["kinds"] = kinds
    f["nopd"] = len(ast["opds"])
    return f


def match_entry(entry, prop, feat):
    if entry.get("status") != "open" or entry["property"] != prop:
        return False
    if feat["reason"] not in entry["reason"]:
        return False
    for k, want in entry.get("match", {}).items():
        got = feat.get(k)
        if isinstance(want, dict):
            if "in" in want and got not in want["in"]:
                return False
            if "nin" in want and got in want["nin"]:
                return False
            if "ge" in want and not (isinstance(got, (int, float)) and got >= want["ge"]):
                return False
            if "le" in want and not (isinstance(got, (int, float)) and got <= want["le"]):
                return False
            if "ne" in want and got == want["ne"]:
                return False
            if "re" in want:
                import re
                if not (isinstance(got, str) and re.search(want["re"], got)):
                    return False
        elif got != want:
            return False
    return True


def judge(prop, events, module="EncTrace"):
    bad, judged = A.monitor(events, module=module)
    byid = {e["id"]: e for e in events}
    mine, others = [], collections.Counter()
    for (eid, reason, oi, ctx, mode) in bad:
        rec = byid[eid]
        p, r = attribute(reason, rec)
        # a violation of another listed property seen on this check's inputs is reported under that property, never swallowed
        mine.append((rec, r, {"opt": oi, "ctx": ctx, "mode": mode, "prop": p}))
        if p != prop:
            others[p + ":" + r] += 1
    return mine, others, judged


def triage(prop, failures):
    known = [e for e in A.load_known() if e.get("status") == "open"]
    kf, viol = collections.OrderedDict(), []
    for rec, reason, detail in failures:
        feat = features(rec, reason, detail)
        hit = None
        for e in known:
            if e["property"] == detail.get("prop", prop) and match_entry(e, e["property"], feat):
                hit = e
                break
        if hit:
            kf.setdefault(hit["id"], [hit, 0, rec])
            kf[hit["id"]][1] += 1
        else:
            viol.append((rec, reason, detail))
    return kf, viol


def slim(rec):
    return {k: v for k, v in rec.items() if k in ("id", "prop", "status", "ast", "text", "flags", "cls", "toks")}


def report(prop, tier, t0, judged, nclasses, failures, kf, confirmed, samples, plans_run, exhaustive, others, replay, rule_extra=""):
    if os.environ.get("VERIF_CENSUS"):
        os.makedirs(os.path.join(A.BUILD, "census"), exist_ok=True)
        with open(os.path.join(A.BUILD, "census", "%s-%s.ndjson" % (prop, tier)), "w") as f:
            for rec, reason, detail in failures:
                ft = features(rec, reason, detail)
                ft["bytes"] = [bytes(r["bytes"]).hex() for r in rec.get("runs", []) if detail.get("opt") in r.get("o", [])][:1]
                ft["known"] = next((e["id"] for e in A.load_known() if match_entry(e, prop, ft)), None)
                f.write(json.dumps(ft) + "\n")
    for kid, (entry, n, rec) in kf.items():
        print("KNOWN-FINDING: property=%s %s %s (%d failing events, e.g. `%s`)" % (entry["property"], kid, entry["what"], n, (rec.get("text") or "").strip()))
    seen = collections.Counter()
    for rec, reason, detail in confirmed:
        key = (rec.get("ast", {}).get("mn", rec.get("cls", "")), reason)
        seen[key] += 1
        if seen[key] > 2:
            continue
        path = A.write_replay(prop, "%s-%s" % (rec["id"], reason.replace(":", "_")),
                              {"property": detail.get("prop", prop), "reason": reason, "detail": detail, "record": slim(rec), "observed": rec.get("runs")})
        print("VIOLATION property=%s replay=%s  (%s: `%s` opt=%s ctx=%s mode=%s)" %
              (detail.get("prop", prop), path, reason, (rec.get("text") or "").strip(), detail.get("opt"), detail.get("ctx"), detail.get("mode")))
    for key, n in seen.items():
        if n > 2:
            print("  (+%d more violations of kind %s/%s)" % (n - 2, key[0], key[1]))
    wall = time.time() - t0
    cov = {"evaluations": judged, "distinct_nontrivial": len(nclasses),
           "rule": "TLC enumerates the corpus sets of spec/GenCorpus.tla (%s); every record is rendered, assembled by the freshly built library under the 12 option "
                   "combinations (and the listed contexts/modes) and judged by TLC (spec/EncTrace.tla: DecodeOne(bytes) must satisfy MatchWhy(ast, opts), invalid lines must fail "
                   "without emitting). A case is one input line; distinct_nontrivial counts distinct (mnemonic, operand kinds, widths, low/high/legacy-high register pattern, "
                   "memory shape, literal spelling) classes among the lines judged.%s" % (", ".join(p[0] for p in plans_run), rule_extra),
           "samples": samples[:6], "exhaustive": bool(exhaustive and not replay),
           "corpora": [{"corpus": p[0], "ctx": p[1], "modes": p[2], "lines": p[3]} for p in plans_run],
           "known_findings": {k: v[1] for k, v in kf.items()},
           "failing_events": len(failures), "violations_confirmed": len(confirmed),
           "other_property_observations": dict(others)}
    if not replay:
        A.write_evidence(prop, tier, LEVEL[prop], cov, wall, len(confirmed),
                         ["TLC evaluates the oracle correctly", "the renderer (lib/alverif.py, lib/style.py) prints the AST in the documented syntax (cross-checked by the nasm self-test)",
                          "linerun's two-pattern diff sees every written byte", "X86.tla follows the Intel SDM for the covered forms (validated against nasm)"])
    print("%s %s: judged %d events, %d classes, %d failing, %d known, %d violations, %.1fs" %
          (prop, tier, judged, len(nclasses), len(failures), sum(v[1] for v in kf.values()), len(confirmed), wall))
    return 1 if confirmed else 0


def run(prop, tier, replay=None):
    if prop == "C16":
        return run_c16(prop, tier, replay)
    t0 = time.time()
    A.build("plain")
    A.build_harness("linerun")
    plans = PLANS[prop]
    plans_run, exhaustive, nclasses = [], True, set()
    failures, others, judged = [], collections.Counter(), 0
    samples = []
    if replay:
        rp = json.load(open(replay))
        plans = [("replay", ALLCTX + ",solo37", ALLMODES, None, None, None, False), ("replay", "edge", "fit", None, None, None, False, 16)]
    allrecs = {}
    for pi, plan in enumerate(plans):
        (cname, ctx, modes, nq, nt, flt, thorough_only), pchunk = plan[:7], (plan[7] if len(plan) > 7 else 8)
        if thorough_only and tier == "quick":
            exhaustive = False
            continue
        if replay:
            recs = [rp["record"]]
        else:
            recs = A.load_corpus(A.corpus(cname))
            if flt:
                recs = [r for r in recs if FILTERS[flt](r)]
            n = nq if tier == "quick" else nt
            if n is not None and n < len(recs):
                exhaustive = False
            recs = A.sample(recs, n, A.SEED + 7 * pi)       # (a different sample for every plan over the same corpus)
        if not recs:
            continue
        recs = [dict(r) for r in recs]
        for r in recs:
            r.pop("runs", None)
            r["id"] = "%s.%d/%s" % (cname, pi, r["id"]) if pi else "%s/%s" % (cname, r["id"])
        events = A.run_lines(recs, ctx=ctx, modes=modes, chunk=pchunk)
        f, o, j = judge(prop, events)
        failures += f
        others.update(o)
        judged += j
        for e in events:
            nclasses.add(A.klass(e))
            allrecs[e["id"]] = (e, ctx, modes, pchunk)
        for e in events[:1] + events[-1:]:
            samples.append({"text": e["text"], "status": e["status"],
                            "runs": [{"opts": r["o"], "ctx": r["ctx"], "mode": r["mode"], "ret": r["ret"], "bytes": bytes(r["bytes"]).hex()} for r in e["runs"][:2]]})
        plans_run.append((cname, ctx, modes, len(events)))
    kf, viol = triage(prop, failures)
    # a rejection is reported only if re-running exactly that record repeats it
    confirmed = viol
    if viol and not replay:
        groups = collections.defaultdict(dict)
        for (rec, reason, detail) in viol:
            _, ctx, modes, pchunk = allrecs[rec["id"]]
            groups[(ctx, modes, pchunk)][rec["id"]] = slim(rec)
        rep = set()
        for (ctx, modes, pchunk), recs in groups.items():
            ev2 = A.run_lines(list(recs.values()), ctx=ctx, modes=modes, chunk=pchunk)
            f2, _, _ = judge(prop, ev2)
            rep |= {(r["id"], reason) for (r, reason, _) in f2}
        confirmed = [v for v in viol if (v[0]["id"], v[1]) in rep]
    return report(prop, tier, t0, judged, nclasses, failures, kf, confirmed, samples, plans_run, exhaustive, others, replay)


# ----------------------------------------------------------------------------- C16
def c16_bases(tier):
    """representative lines: class-covering seeded sample over the C01-C05 corpora"""
    n = {"quick": 12, "thorough": 150}[tier]
    out = []
    for cname in ("C01", "C02b", "C02d", "C02e", "C02g", "C03", "C04a", "C04c", "C05", "C05m"):
        recs = [r for r in A.load_corpus(A.corpus(cname)) if r["status"] == "Supported"]
        rnd = random.Random(A.SEED * 7919 + len(out))
        by = {}
        for r in recs:
            by.setdefault(A.klass(r).split("|")[0] + "|" + "".join(o["k"] for o in r["ast"]["opds"]), []).append(r)
        keys = sorted(by)
        rnd.shuffle(keys)
        for k in keys[:n]:
            r = rnd.choice(by[k])
            r["id"] = "%s/%s" % (cname, r["id"])
            out.append(r)
    # directed: immediates whose top bit (at the operand width) is set, on low, extended and memory destinations: how the constant is
    # spelt decides the SMART path of the tokenizer, which must stay confined to mov r64, imm
    recs = [r for r in A.load_corpus(A.corpus("C03")) if r["status"] == "Supported" and len(r["ast"]["opds"]) == 2 and r["ast"]["opds"][1]["k"] == "i"
            and not r["ast"]["opds"][1]["neg"] and r["ast"]["opds"][1]["radix"] == "hex" and not r["ast"]["opds"][1].get("digits")
            and r["ast"]["mn"] in ("mov", "add", "test") and r["ast"]["opds"][0].get("w") in (32, 64)
            and A.le(r["ast"]["opds"][1]["mag"]) in (0x80000000, 0xffffffff, 0x7fffffff)]
    rnd = random.Random(A.SEED * 31 + 16)
    rnd.shuffle(recs)
    seen = set()
    for r in recs:
        o = r["ast"]["opds"][0]
        key = (r["ast"]["mn"], o["k"], o.get("w"), o.get("n", -1) >= 8, A.le(r["ast"]["opds"][1]["mag"]))
        if key in seen:
            continue
        seen.add(key)
        r["id"] = "C03d/%s" % r["id"]
        out.append(r)
        if len(seen) >= (60 if tier == "quick" else 200):
            break
    # lines that fill the 99 characters the filter keeps (and one less): leading zeros of an immediate / a displacement make up the length;
    # every style that keeps the literal as written applies (blanks, case, comments, line ends do not count against the buffer)
    def rr(n):
        return {"k": "r", "cls": "g", "w": 64, "n": n, "hi": False}
    proto = next(r for r in A.load_corpus(A.corpus("C01")) if len(r["ast"]["opds"]) == 2 and all(o["k"] == "r" and o.get("w") == 64 for o in r["ast"]["opds"]))
    r0, r1 = proto["ast"]["opds"]
    for kept in (99, 98):
        # "add rax,0x" is 10 kept characters, the digits follow
        ast = {"mn": "add", "opds": [dict(r0), {"k": "i", "kw": "", "neg": False, "mag": [0x12, 0, 0, 0, 0, 0, 0, 0], "radix": "hex", "digits": 0}]}
        ast["opds"][1]["digits"] = kept - len(A.render({"mn": "add", "opds": [dict(r0), dict(ast["opds"][1], digits=2)]}).replace(", ", ",")) + 2
        out.append({"id": "C16L/add-%d" % kept, "prop": "C16", "status": "Supported", "ast": ast, "full": True})
    return out


def run_c16(prop, tier, replay=None):
    t0 = time.time()
    A.build("plain")
    A.build_harness("linerun")
    styles = [json.loads(l) for l in open(A.corpus("STYLES2"))]
    if tier == "thorough":
        st3 = [json.loads(l) for l in open(A.corpus("STYLES3"))]
        random.Random(A.SEED).shuffle(st3)
        styles += st3[:300]
    decor = [A.toktext(json.loads(l)["toks"]) for l in open(A.corpus("DECOR"))]
    replay_is_filter = False
    if replay:
        rp = json.load(open(replay))
        replay_is_filter = rp.get("record", {}).get("cls") == "filter" or rp.get("filter")
        bases = [] if replay_is_filter else [rp["record"]]
    else:
        bases = c16_bases(tier)
    jobs, meta = [], {}
    for b in bases:
        if "ast" in b:
            jobs.append({"id": b["id"] + "#c", "text": S.apply(b["ast"], S.DEFAULT), "prop": "C16", "status": "Unconstrained"})
            for k, st in enumerate(styles):
                if b.get("full") and (st["zeros"] != "asis" or st["radix"] != "asis"):
                    continue          # (more digits would not fit the line)
                jid = "%s#%d" % (b["id"], k)
                jobs.append({"id": jid, "text": S.apply(b["ast"], st), "prop": "C16", "status": "Unconstrained"})
                meta[jid] = (S.key(st), st["zeros"] != "asis" or st["radix"] != "asis")
    # programs with decoration lines inserted at every position, LF and CRLF
    rnd = random.Random(A.SEED + 5)
    nprog = {"quick": 6, "thorough": 40}[tier]
    progs = []
    if not replay:
        lines = [S.apply(b["ast"], S.DEFAULT) for b in bases]
        for p in range(nprog):
            body = [rnd.choice(lines) for _ in range(3)]
            pid = "prog-%d" % p
            progs.append({"id": pid, "prop": "C16", "status": "Unconstrained", "text": "\n".join(body)})
            jobs.append({"id": pid + "#c", "text": "\n".join(body), "prop": "C16", "status": "Unconstrained"})
            k = 0
            for eol in ("\n", "\r\n"):
                for pos in range(4):
                    for d in decor:
                        v = body[:pos] + [d] + body[pos:]
                        jid = "%s#%d" % (pid, k)
                        k += 1
                        jobs.append({"id": jid, "text": eol.join(v) + (eol if (k % 2) else ""), "prop": "C16", "status": "Unconstrained"})
                        meta[jid] = ("decor=%r@%d,eol=%s" % (d, pos, "lf" if eol == "\n" else "crlf"), False)
    ran = A.run_lines(jobs, ctx="solo0", modes="plain")
    by = collections.defaultdict(dict)
    for e in ran:
        base, k = e["id"].rsplit("#", 1)
        by[base][k] = e
    events = []
    for b in bases + progs:
        g = by[b["id"]]
        ev = {"id": b["id"], "prop": "C16", "status": "Unconstrained", "text": g["c"]["text"], "canon": g["c"]["runs"], "vars": []}
        if "ast" in b:
            ev["ast"] = b["ast"]
        for k, e in g.items():
            if k == "c":
                continue
            sk, zr = meta[e["id"]]
            v = {"sk": sk, "zr": zr, "runs": e["runs"], "text": e["text"]}
            if "fault" in e:
                v["fault"] = e["fault"]
            ev["vars"].append(v)
        events.append(ev)
    failures, others, judged = judge(prop, events, module="StyleTrace")
    # the filter as a function: clauses proved on the model, evaluated on the code's function, model and code compared (spec/AsmFilter.tla)
    finfo = None
    if not replay or replay_is_filter:
        import filtcheck
        fbad, fjudged, finfo = filtcheck.run(tier, random.Random(A.SEED + 16))
        fdrift = collections.Counter()
        for k, (text, reason) in enumerate(fbad):
            if reason.startswith("mech:") or reason.startswith("driver:"):
                fdrift[reason] += 1
                if fdrift[reason] <= 2:
                    A.write_replay(prop, "drift-filter-%d" % k, {"filter": True, "text_hex": text.hex(), "reason": reason})
                if reason.startswith("driver:"):
                    raise A.Infra("filter stage: " + reason)
                continue
            p_, r_ = reason.split(":", 1)
            failures.append(({"id": "filter-%d" % k, "prop": p_, "status": "Unconstrained", "text": text.decode("latin-1"), "cls": "filter"}, r_,
                             {"opt": -1, "ctx": "filter", "mode": "plain", "prop": p_}))
            if p_ != prop:
                others[reason] += 1
        for r_, n_ in fdrift.items():
            print("MODEL-DRIFT: %s (%d strings): the line filter no longer computes the function of spec/AsmFilter.tla although no clause failed on the observed function" % (r_, n_))
        finfo["model_drift"] = dict(fdrift)
        judged += fjudged
    nvars = sum(len(e["vars"]) for e in events)
    # detail.ctx carries the style key
    kf, viol = triage(prop, failures)
    samples = [{"canonical": e["text"], "variant": e["vars"][i]["text"], "style": e["vars"][i]["sk"]} for e in events[:3] for i in (0, len(e["vars"]) // 2)]
    classes = {(A.klass(b) if "ast" in b else b["id"], sk) for b in bases + progs for sk in [v["sk"] for v in by and events[0]["vars"]][:0]} or set()
    classes = {(e["id"], v["sk"]) for e in events for v in e["vars"]}
    return report(prop, tier, t0, nvars, classes, failures, kf, viol, samples,
                  [("STYLES2%s x %d representative lines + %d decorated programs" % ("+STYLES3 sample" if tier == "thorough" else "", len(bases), len(progs)), "solo0", "plain", nvars)],
                  False, others, replay,
                  rule_extra=" For C16 a case is one (line or program, style) pair: spec/StyleTrace.tla requires the outcome (return value and bytes) under every option combination to equal "
                             "that of the canonical spelling; styles are all elements of StyleDims that differ from the canonical style in at most two dimensions. "
                             "In addition spec/AsmFilter.tla: TLC proves the lexical clauses (blanks before the mnemonic and after its separator, letter case, text after ; % CR LF, bytes above "
                             "0x7e, kept length) for the model filter on every string of length <= N over a 16- (quick, N = 4) or 11-symbol (thorough, N = 5) alphabet, evaluates the same clauses on "
                             "the function the real filter computes on that whole domain (Filtered hook) and compares model and code string by string (plus boundary-length and random lines)."
                  + (" Filter stage: %s." % json.dumps(finfo) if finfo else ""))
