"""Glue for the AssemblyLine verification machinery (no decisions are taken here:
this module renders ASTs to text, moves traces between the harness and TLC, matches
reported failures against known_findings.json and writes evidence)."""
import hashlib, json, os, random, re, subprocess, sys, time, shutil, glob

VERIF = os.path.dirname(os.path.dirname(os.path.abspath(__file__)))
REPO = os.environ.get("VERIF_REPO", "/repo")
BUILD = os.environ.get("VERIF_BUILD", os.path.join(VERIF, "build"))
OBJ = os.path.join(BUILD, "obj-%d" % os.getpid())      # per-process binaries: concurrent checks never share them
SPEC = os.path.join(VERIF, "spec")
JAVA_CP = "/opt/veriftools/tla/tla2tools.jar:/opt/veriftools/tla/CommunityModules-deps.jar"
SEED = int(os.environ.get("VERIF_SEED", "1") or 1)
NCPU = min(16, os.cpu_count() or 4)


class Infra(Exception):
    """machinery failure (exit 2), never a VIOLATION"""


def sh(cmd, **kw):
    return subprocess.run(cmd, shell=isinstance(cmd, str), **kw)


# ----------------------------------------------------------------------------- build
def _cleanup():
    shutil.rmtree(OBJ, ignore_errors=True)


def build(*variants):
    import atexit
    atexit.register(_cleanup)
    r = sh([os.path.join(VERIF, "bin", "build")] + list(variants), capture_output=True, text=True,
           env=dict(os.environ, VERIF_REPO=REPO, VERIF_BUILD=OBJ))
    if r.returncode != 0:
        raise Infra("library build failed:\n" + r.stdout + r.stderr)


def build_harness(name, variant="plain", extra=()):
    """compile /verif/harness/<name>.c against the freshly built library"""
    d = os.path.join(OBJ, variant)
    flags = open(os.path.join(d, "flags")).read().split()
    out = os.path.join(d, name)
    cmd = flags + ["-std=gnu11", "-w", "-DASSEMBLYLINE_VERIF", "-I" + os.path.join(REPO, "src"),
                   os.path.join(VERIF, "harness", name + ".c"), os.path.join(d, "libal.a"), "-o", out, "-lpthread"] + list(extra)
    r = sh(cmd, capture_output=True, text=True)
    if r.returncode != 0:
        raise Infra("harness build failed: " + " ".join(cmd) + "\n" + r.stderr)
    return out


# ----------------------------------------------------------------------------- TLC
def tlc(module, cfg=None, env=None, workers=1, timeout=1800, xmx="3g", extra=(), tag=None):
    """run TLC on spec/<module>.tla; returns (returncode, stdout)"""
    tag = tag or "%s-%d-%d" % (module, os.getpid(), int(time.time() * 1000) % 1000000)
    meta = os.path.join(BUILD, "tlc", tag)
    shutil.rmtree(meta, ignore_errors=True)
    os.makedirs(meta, exist_ok=True)
    cmd = ["java", "-XX:+UseParallelGC", "-Xmx" + xmx, "-Xss64m", "-cp", JAVA_CP, "tlc2.TLC", "-noGenerateSpecTE", "-workers", str(workers),
           "-metadir", meta, "-config", os.path.join(SPEC, (cfg or module) + ".cfg")] + list(extra) + [os.path.join(SPEC, module + ".tla")]
    e = dict(os.environ)
    e.update({k: str(v) for k, v in (env or {}).items()})
    try:
        r = subprocess.run(cmd, cwd=SPEC, env=e, capture_output=True, text=True, timeout=timeout)
    except subprocess.TimeoutExpired as ex:
        shutil.rmtree(meta, ignore_errors=True)
        raise Infra("TLC timed out on %s: %s" % (module, ex))
    shutil.rmtree(meta, ignore_errors=True)
    return r.returncode, r.stdout + r.stderr


def spec_hash(*modules):
    h = hashlib.sha256()
    for m in modules:
        h.update(open(os.path.join(SPEC, m + ".tla"), "rb").read())
    return h.hexdigest()[:16]


def corpus(name, extra_env=None):
    """TLC enumerates corpus `name` (GenCorpus.tla); cached by spec hash"""
    key = spec_hash("X86", "AsmSyntax", "GenCorpus") + "-" + hashlib.sha256(json.dumps(extra_env or {}, sort_keys=True).encode()).hexdigest()[:8]
    d = os.path.join(BUILD, "corpus")
    os.makedirs(d, exist_ok=True)
    path = os.path.join(d, "%s-%s.ndjson" % (name, key))
    if not os.path.exists(path):
        tmp = path + ".tmp%d" % os.getpid()
        env = {"CORPUS": name, "OUT": tmp}
        env.update(extra_env or {})
        rc, out = tlc("GenCorpus", env=env, timeout=3000, xmx="6g", tag="gen-%s-%d" % (name, os.getpid()))
        if rc != 0 or not os.path.exists(tmp):
            raise Infra("corpus generation failed for %s:\n%s" % (name, out[-3000:]))
        os.replace(tmp, path)
    return path


# ----------------------------------------------------------------------------- rendering
G64 = ["rax", "rcx", "rdx", "rbx", "rsp", "rbp", "rsi", "rdi"] + ["r%d" % i for i in range(8, 16)]
G32 = ["eax", "ecx", "edx", "ebx", "esp", "ebp", "esi", "edi"] + ["r%dd" % i for i in range(8, 16)]
G16 = ["ax", "cx", "dx", "bx", "sp", "bp", "si", "di"] + ["r%dw" % i for i in range(8, 16)]
G8 = ["al", "cl", "dl", "bl", "spl", "bpl", "sil", "dil"] + ["r%db" % i for i in range(8, 16)]
H8 = {4: "ah", 5: "ch", 6: "dh", 7: "bh"}
GN = {64: G64, 32: G32, 16: G16, 8: G8}


def le(bs):
    return int.from_bytes(bytes(bs), "little")


def regname(o):
    if o["f"] == "g":
        return H8[o["n"]] if o["h"] else GN[o["w"]][o["n"]]
    return {"m": "mm", "x": "xmm", "y": "ymm"}[o["f"]] + str(o["n"])


def immtext(neg, mag, radix, digits=0):
    v = le(mag)
    if radix == "hex":
        s = "0x" + ("%x" % v).rjust(digits, "0") if digits else "0x%x" % v
    else:
        s = ("%d" % v).rjust(digits, "0") if digits else "%d" % v     # digits: total number of decimal digits (leading zeros)
    return ("-" if neg else "") + s


def opdtext(o):
    k = o["k"]
    if k == "r":
        return (o["kw"] + " " if o.get("kw") else "") + regname(o)      # (a size keyword written in front of a register)
    if k == "i":
        return (o["kw"] + " " if o.get("kw") else "") + immtext(o["neg"], o["mag"], o["radix"], o.get("digits", 0))
    names = G64 if o["a"] == 64 else G32
    parts = []
    if o["b"] >= 0:
        parts.append(names[o["b"]])
    if o["i"] >= 0:
        if o["s"] == 0:
            parts.append(names[o["i"]])
        elif o["ord"] == "is":
            parts.append("%s*%d" % (names[o["i"]], o["s"]))
        else:
            parts.append("%d*%s" % (o["s"], names[o["i"]]))
    if o.get("ord") in ("sb", "ib") and len(parts) == 2:
        # the index part written in front of the base: [2*rax+rbx] ("sb") / [rax*2+rbx] ("ib")
        idx = names[o["i"]] if o["s"] == 0 else ("%d*%s" % (o["s"], names[o["i"]]) if o["ord"] == "sb" else "%s*%d" % (names[o["i"]], o["s"]))
        parts = [idx, names[o["b"]]]
    t = "+".join(parts)
    if o["hasd"]:
        lit = immtext(False, o["dm"], o["dr"])
        if parts:
            t += ("-" if o["neg"] else "+") + lit
        else:
            t = ("-" if o["neg"] else "") + lit
    pre = ("far " if o.get("far") else "") + (o["kw"] + " " if o.get("kw") else "")
    return pre + "[" + t + "]"


def render(ast):
    """canonical text of an AST"""
    if "text" in ast:
        return ast["text"]
    t = ast["mn"]
    if ast["opds"]:
        t += " " + ", ".join(opdtext(o) for o in ast["opds"])
    return t


def toktext(toks):
    """token sequence of a lexical corpus record -> text ("<hh>" is the byte hh)"""
    return "".join(chr(int(t[1:3], 16)) if re.fullmatch(r"<[0-9a-f]{2}>", t) else t for t in toks)


def klass(rec):
    """class key used for class-covering sampling and for distinct_nontrivial"""
    ast = rec.get("ast")
    if not ast or "opds" not in ast:
        return rec.get("cls", "raw")
    parts = [ast["mn"]]
    for o in ast["opds"]:
        if o["k"] == "r":
            parts.append("%s%d%s" % (o["f"], o["w"], "H" if o["h"] else ("h" if o["n"] >= 8 else "l")))
        elif o["k"] == "m":
            parts.append("m%d%s%s%s%s" % (o["w"], "b" if o["b"] >= 0 else "", "i" if o["i"] >= 0 else "", "d" if o["hasd"] else "", o.get("kw", "")))
        else:
            parts.append("i" + ("n" if o["neg"] else "p") + o["radix"][0] + o.get("kw", ""))
    return "|".join(parts)


# ----------------------------------------------------------------------------- line-level pipeline
def load_corpus(path):
    recs = []
    with open(path) as f:
        for i, ln in enumerate(f):
            r = json.loads(ln)
            r.setdefault("id", "%s-%06d" % (r.get("prop", "X"), i))
            recs.append(r)
    return recs


def sample(recs, n, seed):
    """class-covering seeded sample of about n records (all of them if n is None or >= len)"""
    if n is None or n >= len(recs):
        return list(recs)
    rnd = random.Random(seed)
    by = {}
    for r in recs:
        by.setdefault(klass(r), []).append(r)
    out = []
    keys = sorted(by)
    if len(keys) > n:
        # more classes than the budget: plain seeded sample
        idx = list(range(len(recs)))
        rnd.shuffle(idx)
        return [recs[i] for i in sorted(idx[:n])]
    for k in keys:
        out.append(rnd.choice(by[k]))
    if len(out) < n:
        chosen = set(id(r) for r in out)
        pool = [r for r in recs if id(r) not in chosen]
        rnd.shuffle(pool)
        out.extend(pool[: n - len(out)])
    return out


def run_lines(recs, ctx="solo0", modes="plain", opts="all", chunk=8, variant="plain", jobs=None, timeout=3600):
    """run the real library (freshly built `variant`) on every record; returns list of events (rec + runs)"""
    exe = os.path.join(OBJ, variant, "linerun")
    jobs = jobs or NCPU
    work = os.path.join(BUILD, "work")
    os.makedirs(work, exist_ok=True)
    # ids
    for i, r in enumerate(recs):
        r.setdefault("id", "%s-%06d" % (r.get("prop", "X"), i))
        if "text" not in r:
            r["text"] = toktext(r["toks"]) if "toks" in r else render(r["ast"])
    shards = [recs[i::jobs] for i in range(jobs)]
    procs = []
    for si, sh_ in enumerate(shards):
        if not sh_:
            continue
        inp = os.path.join(work, "jobs-%d-%d.tsv" % (os.getpid(), si))
        with open(inp, "w") as f:
            for r in sh_:
                f.write("%s\t%s\t%s\n" % (r["id"], r.get("flags", "-"), r["text"].encode("latin-1").hex() or "-"))
        outp = inp + ".out"
        p = subprocess.Popen([exe, "--ctx", ctx, "--modes", modes, "--opts", opts, "--chunk", str(chunk)],
                             stdin=open(inp), stdout=open(outp, "w"), stderr=subprocess.DEVNULL)
        procs.append((p, inp, outp))
    byid = {r["id"]: r for r in recs}
    events = []
    for p, inp, outp in procs:
        try:
            p.wait(timeout=timeout)
        except subprocess.TimeoutExpired:
            p.kill()
            raise Infra("linerun timed out")
        with open(outp) as f:
            for ln in f:
                try:
                    o = json.loads(ln)
                except Exception:
                    raise Infra("linerun wrote an unparsable line: " + ln[:200])
                r = dict(byid[o["id"]])
                r["runs"] = o["runs"]
                if "fault" in o:
                    r["fault"] = o["fault"]
                events.append(r)
        os.unlink(inp)
        os.unlink(outp)
    if len(events) != len(recs):
        raise Infra("linerun produced %d events for %d jobs" % (len(events), len(recs)))
    return events


BAD_RE = re.compile(r'^"BAD\|([^|]*)\|([^|]*)\|(-?\d+)\|([^|]*)\|([^|]*)"$')


def monitor(events, module="EncTrace", shards=None, timeout=3000, keys=("id", "prop", "status", "ast", "runs", "fault", "canon", "vars")):
    """TLC judges the events; returns (list of (id, reason, opt, ctx, mode), judged_count)"""
    shards = shards or NCPU
    work = os.path.join(BUILD, "work")
    os.makedirs(work, exist_ok=True)
    parts = [events[i::shards] for i in range(shards)]
    procs = []
    for si, part in enumerate(parts):
        if not part:
            continue
        tr = os.path.join(work, "trace-%d-%d.ndjson" % (os.getpid(), si))
        with open(tr, "w") as f:
            for e in part:
                ev = {k: v for k, v in e.items() if k in keys}
                f.write(json.dumps(ev) + "\n")
        tag = "mon-%d-%d" % (os.getpid(), si)
        meta = os.path.join(BUILD, "tlc", tag)
        shutil.rmtree(meta, ignore_errors=True)
        os.makedirs(meta, exist_ok=True)
        cmd = ["java", "-XX:+UseParallelGC", "-Xmx2g", "-Xss64m", "-cp", JAVA_CP, "tlc2.TLC", "-noGenerateSpecTE", "-workers", "1", "-metadir", meta,
               "-config", os.path.join(SPEC, module + ".cfg"), os.path.join(SPEC, module + ".tla")]
        p = subprocess.Popen(cmd, cwd=SPEC, env=dict(os.environ, TRACE=tr), stdout=subprocess.PIPE, stderr=subprocess.STDOUT, text=True)
        procs.append((p, tr, meta, len(part)))
    bad, judged = [], 0
    for p, tr, meta, n in procs:
        try:
            out, _ = p.communicate(timeout=timeout)
        except subprocess.TimeoutExpired:
            p.kill()
            raise Infra("monitor TLC timed out")
        shutil.rmtree(meta, ignore_errors=True)
        m = re.search(r'<<"JUDGED", (\d+)>>', out)
        if p.returncode != 0 or not m or int(m.group(1)) != n:
            keep = tr + ".failed"
            os.replace(tr, keep)
            raise Infra("monitor TLC failed (rc=%s) on %s:\n%s" % (p.returncode, keep, out[-4000:]))
        judged += n
        nraw = sum(1 for ln in out.splitlines() if "BAD" in ln)
        nparsed = sum(1 for ln in out.splitlines() if BAD_RE.match(ln))
        if nraw != nparsed:
            raise (Infra if "alverif" in __name__ else A.Infra)("monitor output has %d BAD lines but %d could be parsed:\n%s" % (nraw, nparsed, "\n".join(l for l in out.splitlines() if "BAD" in l)[:2000]))
        for ln in out.splitlines():
            mm = BAD_RE.match(ln)
            if mm:
                bad.append((mm.group(1), mm.group(2), int(mm.group(3)), mm.group(4), mm.group(5)))
        os.unlink(tr)
    return bad, judged


# ----------------------------------------------------------------------------- known findings
def load_known():
    p = os.path.join(VERIF, "known_findings.json")
    if not os.path.exists(p):
        return []
    return json.load(open(p))["findings"]


def _get(obj, path):
    cur = obj
    for part in path.split("."):
        if isinstance(cur, list):
            try:
                cur = cur[int(part)]
            except (ValueError, IndexError):
                return None
        elif isinstance(cur, dict):
            if part not in cur:
                return None
            cur = cur[part]
        else:
            return None
    return cur


def match_known(entry, prop, reason, rec, extra=None):
    """does an open known-finding entry cover this failing event?"""
    if entry.get("status") != "open" or entry["property"] != prop:
        return False
    if reason not in entry["reason"]:
        return False
    ctx = dict(rec)
    ctx.update(extra or {})
    for path, want in entry.get("match", {}).items():
        got = _get(ctx, path)
        if isinstance(want, dict):
            if "in" in want and got not in want["in"]:
                return False
            if "ge" in want and not (got is not None and got >= want["ge"]):
                return False
            if "le" in want and not (got is not None and got <= want["le"]):
                return False
            if "ne" in want and got == want["ne"]:
                return False
            if "re" in want and not (isinstance(got, str) and re.search(want["re"], got)):
                return False
        elif got != want:
            return False
    return True


# ----------------------------------------------------------------------------- evidence / verdict
def write_evidence(prop, tier, level, coverage, wall, violations, assumptions):
    if os.path.realpath(REPO) != "/repo" or os.environ.get("VERIF_NO_EVIDENCE"):
        return   # evidence describes runs against the unchanged /repo, never a scratch worktree or a tree with a seeded change applied (bin/tryseed, bin/seeded)
    os.makedirs(os.path.join(VERIF, "evidence"), exist_ok=True)
    ev = {"property_id": prop, "tier": tier, "seed": SEED, "level": level, "coverage": coverage,
          "assumptions": assumptions, "wall_s": round(wall, 2), "violations": violations}
    with open(os.path.join(VERIF, "evidence", prop + ".json"), "w") as f:
        json.dump(ev, f, indent=1)
        f.write("\n")


def write_replay(prop, name, obj):
    d = os.path.join(VERIF, "build", "replay")
    os.makedirs(d, exist_ok=True)
    p = os.path.join(d, "%s-%s.json" % (prop, re.sub(r"[^A-Za-z0-9_.#-]", "_", name)))
    with open(p, "w") as f:
        json.dump(obj, f, indent=1)
    return p
