"""API-level checks (C06 C07 C08 C12 C13 C14 C15): TLC model checking of spec/AsmApi.tla, replay of every printed
transition on the real library (harness/apirun.c), seeded random histories, and validation of every recorded
execution by TLC (spec/ApiTrace.tla)."""
import stat, zlib, json, os, re, random, subprocess, time, collections, shutil
import alverif as A

LEVEL = "model_checking"

# ----------------------------------------------------------------------------- model configurations
ALLPROPS = ["C06_Concat", "C07_Contained", "PrefixKept", "C08_Growth", "C13_Fit", "C14_Count", "C15_FailKeeps", "C15_HistFree",
            "C15_CountNeutral", "C12_Options"]


def rng(a, b):
    return "{" + ",".join(str(x) for x in range(a, b + 1)) + "}"


def S(*xs):
    return "{" + ",".join('"%s"' % x if isinstance(x, str) else str(x) for x in xs) + "}"


MODELS = {
    # name: (quick constants, thorough overrides)
    "MC_C12": (dict(T=4, Q=6, NINST=2, LENS="{}", MAXPROG=0, CAPS=S(24), Q0=10, CHUNKS="{}", OFFS="{}", KINDS=S("ext"),
                    SETTERS=S("mov", "swap", "nobase", "sib", "all"), DEPTH=100, EMITACTS=S("opt", "create")), {}),
    "MC_C13": (dict(T=20, Q=6000, NINST=1, LENS=rng(1, 13), MAXPROG=1, CAPS=S(160), Q0=6020, CHUNKS=rng(0, 24), OFFS=rng(0, 24), KINDS=S("ext"),
                    SETTERS="{}", DEPTH=4, EMITACTS=S("asm")), dict(CHUNKS=rng(0, 40), OFFS=rng(0, 40), LENS=rng(1, 15))),
    "MC_C07": (dict(T=4, Q=6, NINST=1, LENS=S(1, 2, 3, 4), MAXPROG=2, CAPS=rng(0, 10), Q0=10, CHUNKS=S(0, 2, 3, 5), OFFS=rng(0, 10), KINDS=S("ext"),
                    SETTERS="{}", DEPTH=5, EMITACTS=S("asm", "count")), {}),
    "MC_C08": (dict(T=4, Q=6, NINST=1, LENS=S(1, 2, 3, 4), MAXPROG=3, CAPS=S(0), Q0=10, CHUNKS=S(0, 3, 5), OFFS=S(0), KINDS=S("int"),
                    SETTERS="{}", DEPTH=4, EMITACTS=S("asm", "count")), dict(DEPTH=5)),
    "MC_C14": (dict(T=20, Q=6000, NINST=1, LENS=S(1, 2, 3, 7, 13), MAXPROG=2, CAPS=S(120), Q0=6020, CHUNKS=rng(0, 20), OFFS=rng(0, 20), KINDS=S("ext"),
                    SETTERS="{}", DEPTH=3, EMITACTS=S("count")), dict(CHUNKS=rng(0, 33), OFFS=rng(0, 33))),
    "MC_C06": (dict(T=4, Q=6, NINST=1, LENS=S(1, 2, 3), MAXPROG=3, CAPS=S(24), Q0=10, CHUNKS="{}", OFFS=rng(0, 3), KINDS=S("ext", "int"),
                    SETTERS="{}", DEPTH=4, EMITACTS=S("asm")), dict(DEPTH=5, LENS=S(1, 2, 3, 4), OFFS=rng(0, 5))),
    "MC_C15": (dict(T=4, Q=6, NINST=2, LENS=S(1, 3), MAXPROG=2, CAPS=S(7, 12), Q0=10, CHUNKS=S(0, 2, 4), OFFS=S(0, 2, 5), KINDS=S("ext", "int"),
                    SETTERS="{}", DEPTH=4, EMITACTS=S("asm", "count")), dict(DEPTH=5)),
}
KEYS = ["T", "Q", "NINST", "LENS", "MAXPROG", "CAPS", "Q0", "CHUNKS", "OFFS", "KINDS", "SETTERS", "DEPTH", "EMITACTS"]


def model_check(name, tier):
    """run TLC on AsmApi.tla with the named configuration; returns (stats, scripts, constants)"""
    base, over = MODELS[name]
    c = dict(base)
    if tier == "thorough":
        c.update(over)
    cfgdir = os.path.join(A.BUILD, "cfg")
    os.makedirs(cfgdir, exist_ok=True)
    cfgname = "%s_%s_%d" % (name, tier, os.getpid())
    with open(os.path.join(A.SPEC, cfgname + ".cfg"), "w") as f:
        f.write("SPECIFICATION Spec\nCONSTANTS\n")
        for k in KEYS:
            f.write(" %s = %s\n" % (k, c[k]))
        f.write("CONSTRAINT Bounded\nVIEW View\nACTION_CONSTRAINT Emit\n")
        for p in ALLPROPS:
            f.write("PROPERTY %s\n" % p)
    try:
        rc, out = A.tlc("AsmApi", cfg=cfgname, workers=16, timeout=3000, xmx="8g", tag=cfgname)
    finally:
        os.unlink(os.path.join(A.SPEC, cfgname + ".cfg"))
    m = re.search(r"(\d+) states generated, (\d+) distinct states found", out)
    if not m:
        raise A.Infra("model checking %s did not finish:\n%s" % (name, out[-3000:]))
    stats = {"config": name, "transitions": int(m.group(1)), "states": int(m.group(2)), "constants": {k: str(v) for k, v in c.items()}}
    violated = None
    if rc != 0 or "is violated" in out or "Error:" in out:
        mm = re.search(r"Error: Action property (\w+) is violated|Invariant (\w+) is violated|Error: (.*)", out)
        violated = (mm.group(1) or mm.group(2) or mm.group(3)) if mm else "unknown"
        stats["counterexample"] = out[out.find("Error:"):][:6000]
    scripts = []
    for ln in out.splitlines():
        if ln.startswith('"TR|'):
            scripts.append(json.loads(json.loads(ln)[3:]))
    if sum(1 for ln in out.splitlines() if "TR|" in ln) != len(scripts):
        raise A.Infra("some printed transitions of %s could not be parsed" % name)
    return stats, scripts, c, violated


# ----------------------------------------------------------------------------- concrete lines
POOL = ["ret", "nop", "push rax", "clc", "nop2", "xor eax, eax", "push r8", "add rax, rcx", "nop3", "mov rcx, rdx", "add rax, 0x5", "nop4",
        "lea rax, [rcx+0x10]", "nop5", "add eax, 0x12345678", "lea rax, [rcx+rdx*4+0x10]", "nop6", "add ecx, 0x12345678", "nop7", "add rcx, 0x12345678",
        "lea rax, [rcx+0x12345]", "nop8", "add qword [rax+0x10], 0x12345678", "lea rax, [rcx+rdx*4+0x12345]", "nop9",
        "add qword [rax+rcx*4+0x10], 0x12345678", "nop10", "mov rax, 0x1122334455667788", "nop11", "mov qword [rax+0x12345], 0x5",
        "add qword [rax+rcx*4+0x12345], 0x12345678", "add qword [eax+ecx*4+0x12345], 0x12345678", "mov qword [eax+ecx*4+0x12345], 0x12345678",
        "mov qword [r8d+r9d*4+0x12345], 0x12345678", "imul r8, [r8d+r9d*4+0x12345], 0x12345678", "add qword [r8d+r9d*4+0x12345], 0x12345678",
        "vpaddb ymm1, ymm2, ymm3", "vperm2i128 ymm1, ymm2, [rax+rcx*4+0x12345], 0x5", "paddb xmm1, xmm2", "mulx r8, r9, [rsi]", "cmovne rax, r11",
        "shl rax, 0x5", "movq xmm1, rax", "vmovdqu [rdi], ymm0", "vmovupd xmm1, [rax]", "rorx rax, rcx, 0x5", "vpaddd ymm0, ymm5, ymm2", "sarx r8, r9, r10", "mov cx, 0x12", "test bx, 0x7f", "mov word [rdi], 0x5", "add r9w, 0x1234", "jmp 0x4", "jne -0x1000", "call rax", "push 0x5", "call 0x100", "jmp long 0x10", "jne 0x10", "jrcxz 0x5", "xbegin 0x10", "jmp [rax]", "imul rax, rcx, 0x5", "setc al", "bzhi rax, rcx, rdx",
        # literals beyond 64 bits (accepted and clamped by the library: whatever they do, they must not influence later lines or calls)
        "add rcx, 0x1ffffffffffffffff", "push 99999999999999999999999", "mov rax, [rbx+0x10000000000000000]",
        # displacements wider than 32 bits (accepted and truncated by the library: whatever they do, no write may leave the buffer)
        "mov rax, [rbx+0x123456789]", "add dword [rcx+rdx*2+0x1000000ff], 1", "lea rax, [rbx+0xffffffff80]", "mov rax, [rbx+4294967424]",
        # the longest encodings the library can be made to emit (an 8-byte immediate behind a 32-bit-address SIB operand: 16 and 17 bytes)
        "and qword [r8d+r9d*8+0x12345678], 0x1122334455667788", "add qword [eax+ecx*8+0x12345678], 0x1122334455667788", "test qword [r8d+r9d*8+0x12345678], 0x1122334455667788",
        # immediates equal to the value strtoul reports on overflow
        "add rax, -1", "mov rcx, 0xffffffffffffffff", "push -1", "and rdx, 0xffffffffffffffff", "mov rax, 18446744073709551615"]
BADLINES = ["bogus rax", "mov [rax], [rbx]", "add rax, rxx", "lea rax, [rsp+rsp]",
            # lines whose first character lies between 'Z' and 'a' (the filter starts a mnemonic there): a label without its colon, a stray bracket
            "_start", "[rax]", "^", "`x`", "]", "\\x"]
OPTSENS = ["mov rax, 0x5", "mov rax, 0x0000000000000005", "lea rcx, [rax+rsp]", "lea rcx, [2*rax]", "mov rdx, 1234", "lea rcx, [4*rdx+0x10]",
           "add qword [rax+rsp], 5", "add qword [2*rax], 5", "mov dword [2*rcx], 100", "imul rax, [rbx+rsp], 10", "add qword [rax+rsp], 0x5", "cmp byte [8*rdx], 7",
           "lea rcx, [1*rax]", "mov rcx, [1*rdx]", "add qword [1*r12+0x10], 5", "lea rcx, [1*rax+0x10]", "push qword [r9+rsp]", "call [2*r9]", "vpxor ymm0, ymm1, [2*r9]",
           "mulx rax, rbx, [1*r13]", "bextr rax, [r9+rsp], rbx", "lea rcx, [r12+rsp]", "add qword [r12+rsp+0x10], 5", "mov ecx, [r12d+esp]", "lea rcx, [r13+rsp]", "mov rcx, [rbp+rsp]"]
# the option dimensions each of these lines may depend on (C12: one dimension never changes what another one governs)
DIMS = {"mov rax, 0x5": ["mov"], "mov rax, 0x0000000000000005": ["mov"], "lea rcx, [rax+rsp]": ["swap"], "lea rcx, [2*rax]": ["nobase"], "mov rdx, 1234": ["mov"],
        "lea rcx, [4*rdx+0x10]": ["nobase"], "add qword [rax+rsp], 5": ["swap"], "add qword [2*rax], 5": ["nobase"], "mov dword [2*rcx], 100": ["nobase"],
        "imul rax, [rbx+rsp], 10": ["swap"], "add qword [rax+rsp], 0x5": ["swap"], "cmp byte [8*rdx], 7": ["nobase"],
        "lea rcx, [1*rax]": ["nobase"], "mov rcx, [1*rdx]": ["nobase"], "add qword [1*r12+0x10], 5": ["nobase"], "lea rcx, [1*rax+0x10]": ["nobase"],
        "push qword [r9+rsp]": ["swap"], "call [2*r9]": ["nobase"], "vpxor ymm0, ymm1, [2*r9]": ["nobase"], "mulx rax, rbx, [1*r13]": ["nobase"], "bextr rax, [r9+rsp], rbx": ["swap"],
        "lea rcx, [r12+rsp]": ["swap"], "add qword [r12+rsp+0x10], 5": ["swap"], "mov ecx, [r12d+esp]": ["swap"], "lea rcx, [r13+rsp]": ["swap"], "mov rcx, [rbp+rsp]": ["swap"]}


class Lines:
    """solo codes of candidate lines on the current tree (12 options each), learned through the harness"""

    def __init__(self):
        # (ids derived from the text: a replay file stays valid when lines are added to the pool)
        recs = [{"id": "L%08x" % zlib.crc32(t.encode()), "prop": "X", "status": "Unconstrained", "text": t} for t in POOL + BADLINES + OPTSENS]
        ev = A.run_lines(recs, ctx="solo0", modes="plain")
        self.codes, self.text, self.bylen, self.bad, self.sens = {}, {}, collections.defaultdict(list), [], []
        self.faults = []
        for e in ev:
            per = [None] * 12
            for r in e["runs"]:
                for o in r["o"]:
                    per[o] = r["bytes"] if r["ret"] == 0 else []
            if "fault" in e:
                self.faults.append(e["text"])      # assembling this line alone crashed or hung: reported by finish() as a C09 violation
                continue
            if any(p is None for p in per):
                continue
            self.codes[e["id"]] = per
            self.text[e["id"]] = e["text"]
            lens = {len(p) for p in per}
            if lens == {0}:
                self.bad.append(e["id"])
            elif len({tuple(p) for p in per}) == 1:
                self.bylen[len(per[0])].append(e["id"])
            elif 0 not in lens:
                self.sens.append(e["id"])

    def pick(self, length, rnd):
        if length == 0:
            return rnd.choice(self.bad)
        if not self.bylen.get(length):
            return None
        return rnd.choice(self.bylen[length])


# ----------------------------------------------------------------------------- scripts
OPTV = {"STRICT": 0, "NASM": 1, "SMART": 2, "BAD": 7}
BADVALS = [3, 4, 7, 255, 256, 257, 258, 512, 513, 514, 65536, 65537, 65538, -1, -254, -255, -256, 2147483647, 16777216, 16777217]


def hx(text):
    return text.encode("latin-1").hex() or "-"


SEPS = ["\n", "\r\n", "\r", "\n\n", "\n \t\n", " ; note\n", "\n; note\n", "\r\r", "\n\r", " ; note\r", "\r; note\r", " % m\r", " ;\r", "\r\n; note\r\n",
        # header lines and comments that mention them, between two instruction lines (they emit nothing and concern no other line)
        "\nsection .text\n", "\nglobal _start\n", " ; see section 2\n", "\nSECTION .data\r\n", "\n; global note\n", "\n  Global  f ; x\n"]


class Script:
    """one history: text for apirun + per-op metadata that is merged back into the events"""

    def __init__(self, sid):
        self.sid, self.lines, self.meta = sid, ["S " + sid], []
        self.state = {}

    def _st(self, i):
        return self.state.setdefault(i, {"opt": ["SMART", "NASM", "NASM"], "fit": 0, "off": 0, "ext": True, "cap": 0})

    def create(self, i, kind, cap):
        self.state[i] = {"opt": ["SMART", "NASM", "NASM"], "fit": 0, "off": 0, "ext": kind in ("ext", "exta"), "cap": cap}
        self.lines.append("C %d %s %d" % (i, kind, cap) if kind in ("ext", "exta") else ("C %d int %d" % (i, cap) if cap else "C %d int" % i))
        self.meta.append({})

    def mirror(self, i):
        self.lines.append("M %d" % i)
        self.meta.append({})

    def destroy(self, i):
        self.lines.append("D %d" % i)
        self.meta.append({})
        self.state.pop(i, None)

    def opt(self, i, s, v):
        st = self._st(i)["opt"]
        if s in ("mov", "all") and v in ("STRICT", "NASM", "SMART"):
            st[0] = v
        if s in ("swap", "sib", "all") and v in ("STRICT", "NASM"):
            st[1] = v
        if s in ("nobase", "sib", "all") and v in ("STRICT", "NASM"):
            st[2] = v
        num = OPTV[v]
        if v == "BAD":
            # a value the setters do not document: small, byte-boundary aliases of the documented values, negative, huge
            num = BADVALS[zlib.crc32(("bad:%s:%d" % (self.sid, len(self.lines))).encode()) % len(BADVALS)]
        self.lines.append("O %d %s %d" % (i, s, num))
        self.meta.append({})

    def chunk(self, i, c):
        # (sizes above 2^30 behave like 2^30 for every buffer the harness uses: the events and the twin carry the clipped value)
        self._st(i)["fit"] = min(c, 1 << 30) if c >= 2 else 0
        self.lines.append("K %d %d" % (i, c))
        self.meta.append({})

    def offset(self, i, k):
        self._st(i)["off"] = k
        self.lines.append("F %d %d" % (i, k))
        self.meta.append({})

    def probe(self, i):
        self.lines.append("P %d" % i)
        self.meta.append({})

    def execute(self, i, expect):
        self.lines.append("X %d" % i)
        self.meta.append({"expect": list(expect)})

    def asm(self, i, keys, texts, count=None, twin=False, eol=None):
        st = self._st(i)
        if eol is None:
            # line terminators the library recognises (LF, CRLF, lone CR), blank lines and trailing comments: half of the calls use plain LF
            h = zlib.crc32(("%s:%d" % (self.sid, len(self.lines))).encode())
            eol = SEPS[(h >> 4) % len(SEPS)] if h % 2 else "\n"
            if texts and (h >> 12) % 3 == 0:
                texts = list(texts[:-1]) + [texts[-1] + ["\n", "\r\n", "\r", "\n\n"][(h >> 16) % 4]]
        meta = {"prog": list(keys)}
        if twin and st["ext"]:
            self.lines.append("W %d %d %d %d %d" % (OPTV[st["opt"][0]], OPTV[st["opt"][1]], OPTV[st["opt"][2]], st["fit"], st["off"]))
            self.meta.append(None)
            meta["twcfg"] = [st["opt"][0], st["opt"][1], st["opt"][2], st["fit"], st["off"]]
        text = eol.join(texts)
        tag = "t%d" % len(self.lines)
        fl = "t" if (twin and st["ext"]) else "-"
        if zlib.crc32(("dep:%s:%d" % (self.sid, len(self.lines))).encode()) % 5 == 0:
            fl = fl.replace("-", "") + "d"      # one call in five goes through the deprecated alias (assemble_str, assemble_string_counting_chunks)
        if count is None:
            self.lines.append("A %d %s %s %s" % (i, fl, tag, hx(text)))
        else:
            self.lines.append("N %d %d %s %s %s" % (i, count, fl, tag, hx(text)))
        self.meta.append(meta)
        st["off"] = None   # unknown to the driver from here on (the trace spec tracks it)

    def asm_file(self, i, keys, path, count=None, twin=True, expectfail=False, nulld=False):
        st = self._st(i)
        meta = {"prog": list(keys)}
        if expectfail:
            meta["expectfail"] = True
        if twin and st["ext"] and st["off"] is not None and not expectfail:
            self.lines.append("W %d %d %d %d %d" % (OPTV[st["opt"][0]], OPTV[st["opt"][1]], OPTV[st["opt"][2]], st["fit"], st["off"]))
            self.meta.append(None)
            meta["twcfg"] = [st["opt"][0], st["opt"][1], st["opt"][2], st["fit"], st["off"]]
            fl = "t"
        else:
            fl = "-"
        if count is None and zlib.crc32(("dep:%s:%d" % (self.sid, len(self.lines))).encode()) % 4 == 0:
            fl = fl.replace("-", "") + "d"      # assemble_file, the deprecated alias
        if zlib.crc32(("fd0:%s:%d" % (self.sid, len(self.lines))).encode()) % 3 == 0:
            fl = fl.replace("-", "") + "c"      # with descriptor 0 free, so that the file is opened as descriptor 0
        if nulld:
            fl = fl.replace("-", "") + "z"      # the caller passes no place for the count
        tag = "t%d" % len(self.lines)
        if count is None:
            self.lines.append("T %d %s %s %s" % (i, fl, tag, hx(path)))
        else:
            self.lines.append("U %d %d %s %s %s" % (i, count, fl, tag, hx(path)))
        self.meta.append(meta)
        st["off"] = None

    def binfile(self, i, path, expectfail=False):
        self.lines.append("B %d %s" % (i, hx(path)))
        self.meta.append({"expectfail": True} if expectfail else {})

    def blockgrow(self, i):
        """the next growth of this library-managed buffer has to move it (the pages behind it are taken)"""
        self.lines.append("Q %d" % i)
        self.meta.append({})

    def dropuid(self):
        self.lines.append("J")
        self.meta.append({})

    def fdlimit(self, n):
        self.lines.append("L %d" % n)
        self.meta.append({})

    def arm(self, call, nth):
        self.lines.append("Z %s %d" % (call, nth))
        self.meta.append({})

    def text(self):
        return "\n".join(self.lines + ["E"]) + "\n"


DETOURS = ["count-fail", "count-partial-fail", "asm-fail", "count-ok", "count-fail", "other-instance", "asm-ok", "count-partial-fail", "chunk-toggle", "debug-toggle", "count-fail",
           "count-null", "chunk-off-on", "chunk-off-on"]


def detour(sc, i, kind, L, rnd):
    """operations that must not influence a later call once the offset is set again (C15): inserted in front of the final
    call of a model transition; the caller restores the offset afterwards"""
    st = sc.state[i]
    ok = [L.bylen[k][0] for k in sorted(L.bylen)[:4]]
    bad = L.bad[0]
    c = rnd.choice([5, 7, 8, 11])
    if kind == "count-fail":
        sc.asm(i, [bad], [L.text[bad]], count=c)
    elif kind == "count-partial-fail":
        keys = [ok[1], ok[0], bad]
        sc.asm(i, keys, [L.text[k] for k in keys], count=c)
    elif kind == "asm-fail":
        keys = [ok[0], bad, ok[1]]
        sc.asm(i, keys, [L.text[k] for k in keys])
    elif kind == "count-ok":
        keys = [ok[2], ok[0]]
        sc.asm(i, keys, [L.text[k] for k in keys], count=c)
    elif kind == "asm-ok":
        keys = [ok[1], ok[3]]
        sc.asm(i, keys, [L.text[k] for k in keys])
    elif kind == "count-null":
        keys = [ok[0], ok[1]]
        sc.lines.append("N %d %d z t%d %s" % (i, rnd.choice([0, 1, 5, 16]), len(sc.lines), hx("\n".join(L.text[k] for k in keys))))
        sc.meta.append({"prog": list(keys)})
        st["off"] = None
    elif kind == "other-instance":
        j = 4
        sc.create(j, "ext", 64)
        sc.opt(j, "all", rnd.choice(["STRICT", "NASM"]))
        sc.asm(j, [ok[0]], [L.text[ok[0]]])
        sc.destroy(j)
    elif kind == "chunk-toggle":
        fit = st["fit"]
        sc.chunk(i, rnd.choice([6, 9, 13]))
        sc.asm(i, [ok[2]], [L.text[ok[2]]])
        sc.chunk(i, fit)
    elif kind == "chunk-off-on":
        # fitting switched off and on again with the SAME size (and in between possibly a call): must equal never having touched it
        fit = st["fit"]
        sc.chunk(i, rnd.choice([0, 1]))
        if rnd.random() < 0.5:
            sc.asm(i, [ok[2]], [L.text[ok[2]]])
        sc.chunk(i, fit)
    elif kind == "debug-toggle":
        sc.lines.append("G %d 1" % i); sc.meta.append({})
        sc.lines.append("G %d 0" % i); sc.meta.append({})


def from_model(hist, sid, L, consts, rnd, twin=True, detour_kind=None):
    """concretise one model transition (path + final action): caps keep their distance to the reserve"""
    dT = 20 - int(consts["T"])
    sc = Script(sid)
    n = len(hist)
    for k, op in enumerate(hist):
        i = op["i"]
        if op["op"] == "create":
            sc.create(i, op["kind"], op["cap"] + dT if op["kind"] == "ext" else 0)
        elif op["op"] == "destroy":
            sc.destroy(i)
        elif op["op"] == "opt":
            sc.opt(i, op["s"], op["v"])
            if k == n - 1:
                for j in sorted(sc.state):
                    sc.probe(j)
        elif op["op"] == "chunk":
            sc.chunk(i, op["c"])
        elif op["op"] == "offset":
            sc.offset(i, op["k"])
        elif op["op"] in ("asm", "count"):
            keys = [L.pick(x, rnd) for x in op["lens"]]
            if any(x is None for x in keys):
                return None
            st = sc.state.get(i)
            known = st is not None and st["off"] is not None
            if detour_kind and k == n - 1:
                if not (known and st["ext"]):
                    return None
                saved = st["off"]
                detour(sc, i, detour_kind, L, rnd)
                sc.offset(i, saved)
            sc.asm(i, keys, [L.text[x] for x in keys], count=op.get("c") if op["op"] == "count" else None, twin=twin and known and k == n - 1)
    if hist and hist[-1]["op"] == "create":
        for j in sorted(sc.state):
            sc.probe(j)
    return sc


def random_history(sid, L, rnd, flavour):
    """seeded random history; flavour tunes the mix (C07: small caller buffers, C15: twins and failures, ...)"""
    sc = Script(sid)
    ninst = 1 if flavour in ("C07", "C13", "C14", "C06") else rnd.choice([1, 2, 2, 3])
    lens = sorted(L.bylen)
    live = []

    def prog():
        n = rnd.choice([0, 1, 1, 2, 2, 3, 4, 6, 9]) if flavour != "C06" else rnd.randint(1, 12)
        keys = []
        for _ in range(n):
            r = rnd.random()
            if r < (0.12 if flavour in ("C15", "C07") else 0.03):
                keys.append(rnd.choice(L.bad))
            elif r < 0.25 and L.sens:
                keys.append(rnd.choice(L.sens))
            else:
                keys.append(rnd.choice(L.bylen[rnd.choice(lens)]))
        return keys

    for i in range(1, ninst + 1):
        if flavour == "C07":
            cap = rnd.choice([0, 1, 19, 20, 21, 22, 25, 30, 34, 35, 40, 41, 50, 64, 100, rnd.randint(0, 4096)])
            sc.create(i, "ext", cap)
        elif flavour == "C08":
            sc.create(i, "int", 0)
            sc.mirror(i)
        else:
            kind = rnd.choice(["ext", "ext", "int"]) if flavour in ("C15", "C12") else "ext"
            sc.create(i, kind, rnd.choice([64, 100, 200, 300, 600]))
        live.append(i)
    nops = rnd.randint(3, 14)
    for _ in range(nops):
        if not live:
            break
        i = rnd.choice(live)
        st = sc.state[i]
        r = rnd.random()
        if r < 0.18:
            sc.opt(i, rnd.choice(["mov", "swap", "nobase", "sib", "all"]), rnd.choice(["STRICT", "NASM", "SMART", "BAD"]))
        elif r < 0.30:
            sc.chunk(i, rnd.choice([0, 1, 2, 3, 5, 8, 9, 16, 32, 64]) if flavour != "C14" else 0)
        elif r < 0.45 and st["ext"]:
            cap = st["cap"]
            sc.offset(i, rnd.randint(0, cap) if flavour == "C07" else rnd.randint(0, max(0, min(cap, 60))))
        elif r < 0.45:
            # a library-managed buffer takes any offset: inside what it has, just beyond its capacity, several quanta beyond
            sc.offset(i, rnd.choice([0, 7, 60, 5999, 6001, 6021, 12019, 12021, 12290, 18500, 20000, 31000, 70001]))
        elif r < 0.50 and flavour in ("C15", "C12") and len(live) < 3:
            j = max(sc.state) + 1 if sc.state else 1
            if j <= 4:
                sc.create(j, "ext", 128)
                live.append(j)
        elif r < 0.55 and flavour in ("C15", "C12") and len(live) > 1:
            j = rnd.choice(live)
            sc.destroy(j)
            live.remove(j)
        else:
            keys = prog()
            cnt = rnd.choice([None, None, -1, 0, 1, 2, 3, 5, 8, 16, 33]) if flavour != "C13" else None
            if flavour == "C14":
                cnt = rnd.choice([-1, 0, 1, 2, 3, 4, 5, 7, 8, 9, 16, 31, 32, 33, 64, 200])
            sc.asm(i, keys, [L.text[x] for x in keys], count=cnt, twin=st["off"] is not None and st["ext"], eol=rnd.choice(["\n", "\n", "\r\n"]))
            if flavour in ("C15", "C07", "C06", "C14", "C13") and st["ext"] and rnd.random() < 0.5:
                # set the offset explicitly so that the next call can be compared with a fresh twin
                sc.offset(i, rnd.randint(0, min(st["cap"], 40)))
    if flavour == "C12":
        for j in sorted(sc.state):
            if sc.state[j]["fit"] == 0:
                sc.probe(j)
    return sc


# ----------------------------------------------------------------------------- execution + validation
def execute(scripts, L):
    """run scripts through apirun (sharded); returns list of per-script event lists"""
    exe = A.build_harness("apirun", extra=["-Wl,--wrap=malloc,--wrap=free,--wrap=mmap,--wrap=mremap,--wrap=munmap,--wrap=open,--wrap=fstat,--wrap=read,"
                                             "--wrap=close,--wrap=fopen,--wrap=fwrite,--wrap=fclose"])
    jobs = A.NCPU
    work = os.path.join(A.BUILD, "work")
    os.makedirs(work, exist_ok=True)
    shards = [scripts[i::jobs] for i in range(jobs)]
    procs = []
    for si, sh in enumerate(shards):
        if not sh:
            continue
        inp = os.path.join(work, "scr-%d-%d.txt" % (os.getpid(), si))
        with open(inp, "w") as f:
            for sc in sh:
                f.write(sc.text())
        outp = inp + ".out"
        p = subprocess.Popen([exe], stdin=open(inp), stdout=open(outp, "w"), stderr=subprocess.DEVNULL)
        procs.append((p, inp, outp, sh))
    results = []
    for p, inp, outp, sh in procs:
        try:
            p.wait(timeout=3000)
        except subprocess.TimeoutExpired:
            p.kill()
            raise A.Infra("apirun timed out")
        evs = [json.loads(l) for l in open(outp)]
        # split by Reset and merge metadata
        cur, k = [], 0
        it = iter(sh)
        sc = next(it, None)
        mi = 0
        for e in evs:
            if sc is None:
                raise A.Infra("apirun produced more executions than scripts")
            e["sid"] = sc.sid
            if e["e"] == "Reset":
                cur.append(e)
                results.append((sc, cur))
                cur, mi = [], 0
                sc = next(it, None)
                continue
            if e["e"] == "Fault":
                cur.append(e)
                continue
            # metadata of the op that produced this event (W ops produce no event)
            while mi < len(sc.meta) and sc.meta[mi] is None:
                mi += 1
            if mi < len(sc.meta):
                e.update(sc.meta[mi])
                mi += 1
            cur.append(e)
        os.unlink(inp)
        os.unlink(outp)
    if len(results) != len(scripts):
        raise A.Infra("apirun produced %d executions for %d scripts" % (len(results), len(scripts)))
    return results


BAD_RE = re.compile(r'^"BAD\|([^|]*)\|([^|]*)\|(-?\d+)\|([^|]*)\|([^|]*)"$')


def validate(results, L, shards=None):
    """TLC (ApiTrace.tla) judges every execution; returns list of (sid, reason, event name)"""
    shards = shards or A.NCPU
    work = os.path.join(A.BUILD, "work")
    parts = [results[i::shards] for i in range(shards)]
    procs = []
    for si, part in enumerate(parts):
        if not part:
            continue
        tr = os.path.join(work, "atrace-%d-%d.ndjson" % (os.getpid(), si))
        n = 1
        # the code table of a shard holds the lines its events mention
        used = {k for sc, evs in part for e in evs for k in e.get("prog", ())}
        codes = {k: v for k, v in L.codes.items() if k in used or len(L.codes) < 200}
        with open(tr, "w") as f:
            sens = []
            if si == 0 and hasattr(L, "text"):
                # which option dimensions may change the code of a pool line (everything else in the pool: none)
                for k, t in L.text.items():
                    if k in L.codes:
                        sens.append({"e": "Sens", "sid": "pool", "key": k, "dims": DIMS.get(t, []), "text": t})
                for k in L.codes:
                    codes.setdefault(k, L.codes[k])
            f.write(json.dumps({"e": "Codes", "codes": codes}) + "\n")
            for e in sens:
                f.write(json.dumps(e) + "\n")
                n += 1
            for sc, evs in part:
                for e in evs:
                    f.write(json.dumps(e) + "\n")
                    n += 1
        tag = "api-%d-%d" % (os.getpid(), si)
        meta = os.path.join(A.BUILD, "tlc", tag)
        shutil.rmtree(meta, ignore_errors=True)
        os.makedirs(meta, exist_ok=True)
        cmd = ["java", "-XX:+UseParallelGC", "-Xmx3g", "-Xss64m", "-cp", A.JAVA_CP, "tlc2.TLC", "-noGenerateSpecTE", "-workers", "1", "-metadir", meta,
               "-config", os.path.join(A.SPEC, "ApiTrace.cfg"), os.path.join(A.SPEC, "ApiTrace.tla")]
        p = subprocess.Popen(cmd, cwd=A.SPEC, env=dict(os.environ, TRACE=tr), stdout=subprocess.PIPE, stderr=subprocess.STDOUT, text=True)
        procs.append((p, tr, meta, n))
    bad, judged = [], 0
    for p, tr, meta, n in procs:
        try:
            out, _ = p.communicate(timeout=3000)
        except subprocess.TimeoutExpired:
            p.kill()
            raise A.Infra("ApiTrace TLC timed out")
        shutil.rmtree(meta, ignore_errors=True)
        m = re.search(r'<<"JUDGED", (\d+)>>', out)
        if p.returncode != 0 or not m or int(m.group(1)) != n - 1:
            keep = tr + ".failed"
            os.replace(tr, keep)
            raise A.Infra("ApiTrace TLC failed (rc=%s) on %s:\n%s" % (p.returncode, keep, out[-4000:]))
        judged += n - 1
        nraw = sum(1 for ln in out.splitlines() if "BAD" in ln)
        nparsed = sum(1 for ln in out.splitlines() if BAD_RE.match(ln))
        if nraw != nparsed:
            raise (Infra if "alverif" in __name__ else A.Infra)("monitor output has %d BAD lines but %d could be parsed:\n%s" % (nraw, nparsed, "\n".join(l for l in out.splitlines() if "BAD" in l)[:2000]))
        for ln in out.splitlines():
            mm = BAD_RE.match(ln)
            if mm:
                bad.append((mm.group(1), mm.group(2), mm.group(4)))
        os.unlink(tr)
    return bad, judged


# ----------------------------------------------------------------------------- per-property drivers
PLAN = {
    # property: (model configs, random flavour, quick random histories, thorough random histories)
    "C06": (["MC_C06"], "C06", 300, 30000),
    "C07": (["MC_C07"], "C07", 600, 60000),
    "C08": (["MC_C08"], "C08", 150, 8000),
    "C12": (["MC_C12"], "C12", 400, 30000),
    "C13": (["MC_C13"], "C13", 400, 30000),
    "C14": (["MC_C14"], "C14", 400, 30000),
    "C15": (["MC_C15"], "C15", 800, 60000),
    "C19": ([], "C19", 0, 0),
}
QUICK_REPLAY = {"MC_C13": 6000, "MC_C07": 8000, "MC_C08": 4000, "MC_C14": 6000, "MC_C15": 8000, "MC_C12": None, "MC_C06": None}


RECORDED = ("C06", "C19")      # the checks that also validate recorded runs of the repository's own clients
RECORDED_COUNT = [0]


def run(prop, tier, replay=None):
    t0 = time.time()
    A.build("plain")
    A.build_harness("linerun")
    rnd = random.Random(A.SEED * 1000003 + int(prop[1:]))
    L = Lines()
    models, flavour, nq, nt = PLAN[prop]
    stats_all, scripts, viol_model = [], [], []
    recorded_sid = None
    if replay:
        rp = json.load(open(replay))
        if rp["sid"].startswith(("test-", "cli-")):
            recorded_sid = rp["sid"]        # a recorded client run: recorded again below
        elif rp["sid"] == "pool":
            sc = Script("pool-carrier")     # the learned code table is judged with the first shard of any validation
            sc.create(1, "int", 0); sc.destroy(1)
            scripts = [sc]
        else:
            sc = Script(rp["sid"])
            sc.lines, sc.meta = rp["script"], rp["meta"]
            scripts = [sc]
    else:
        for mname in models:
            stats, trs, consts, violated = model_check(mname, tier)
            stats_all.append(stats)
            if violated:
                viol_model.append((mname, violated, stats.get("counterexample", "")))
            lim = QUICK_REPLAY.get(mname) if tier == "quick" else None
            idx = list(range(len(trs)))
            if lim is not None and len(trs) > lim:
                rnd.shuffle(idx)
                idx = sorted(idx[:lim])
            stats["replayed"] = len(idx)
            stats["emitted"] = len(trs)
            for k in idx:
                sc = from_model(trs[k], "%s-%d" % (mname, k), L, consts, rnd)
                if sc is not None:
                    scripts.append(sc)
            if prop == "C15":
                # the same transitions with a detour in front of the final call: the model identifies the states before and
                # after the detour, so only a replay can show that the code does too
                pick = idx if tier == "thorough" else idx[:: max(1, len(idx) // 2500)]
                for k in pick:
                    if trs[k] and trs[k][-1]["op"] in ("asm", "count"):
                        dk = DETOURS[k % len(DETOURS)]
                        sc = from_model(trs[k], "%s-%d+%s" % (mname, k, dk), L, consts, rnd, detour_kind=dk)
                        if sc is not None:
                            scripts.append(sc)
        nrand = nq if tier == "quick" else nt
        for k in range(nrand):
            scripts.append(random_history("%s-r%d" % (prop, k), L, rnd, flavour))
        if prop in ("C08", "C06", "C15"):
            scripts += [x for x in c08_boundary(L, rnd, tier) if prop == "C08" or x.sid.startswith(("C08-s", "C08-o", "C08-f"))]
        if prop == "C13":
            scripts += c13_boundary(L, rnd, tier)
        if prop == "C14":
            scripts += [x for x in c13_boundary(L, rnd, tier) if x.sid.startswith(("C13-g", "C13-q"))]
        if prop == "C14":
            scripts += c14_edge(L, rnd, tier)
            scripts += [x for x in c09_settings(L, rnd, tier) if x.sid.startswith("C09-k")][::2]      # counting sizes at every integer boundary, negative ones, with and without a count place
            scripts += [x for x in c19_scripts(L, rnd, tier) if x.sid.startswith("C19-end")]     # the file counting entry point at the end of the capacity
        if prop == "C15":
            scripts += [x for x in c13_boundary(L, rnd, tier) if x.sid.startswith("C13-qo")]
        if prop == "C07":
            scripts += c07_boundary(L, rnd, tier)
        if prop in ("C15", "C13"):
            scripts += c15_directed(L, rnd, tier)
        if prop == "C15":
            scripts += [x for x in c19_scripts(L, rnd, tier) if x.sid.startswith("C19-emp")]      # file calls whose result must not depend on earlier file calls
        if prop == "C19":
            scripts += c19_scripts(L, rnd, tier)
    results = execute(scripts, L)
    nrec = 0
    if (prop in RECORDED and not replay) or recorded_sid:
        # executions the repository already has (its C test programs, asmline over its test/*.asm), recorded through harness/recshim.c
        import rectrace as R
        rres, rcodes = R.prepare(R.record("thorough" if recorded_sid else tier, rnd))
        if recorded_sid:
            rres = [x for x in rres if x[0].sid == recorded_sid]
        L.codes.update(rcodes)
        results += rres
        nrec = len(rres)
    RECORDED_COUNT[0] = nrec
    if prop == "C19":
        return finish(prop, tier, t0, results, L, stats_all, viol_model, replay, level="exploration",
                      rule="File contents of every size of the TLC-enumerated set FILESIZES (0..3, every size within +-40 of 4096 and +-20 of 8192, 12288; quick: a subset) are generated "
                           "from pool lines padded with comment text to the exact size, with and without final line end, LF and CRLF; both file entry points run next to a fresh twin that "
                           "assembles the same contents with the string entry points (spec/ApiTrace.tla requires identical return value, offset, count and bytes and also validates the call "
                           "against the mechanism); missing paths and directories must fail without writing; asm_create_bin_file is checked at the offsets of BINOFFSETS (file length and "
                           "hash = buffer prefix) and on an unwritable path. distinct_nontrivial = distinct (size, line-end, entry point) cases.",
                      nontrivial=len({sc.sid.split("-")[-1] + str(k % 6) for k, (sc, _) in enumerate(results)}))
    extra = None
    if prop == "C07" and not replay:
        proof = inductive_proof()
        extra = {"unbounded_inductive_proof": proof}
        for name, res in proof["obligations"].items():
            if res == "Error":
                viol_model.append(("AsmStep", "Apalache: obligation %s fails" % name, proof.get("log", "")))
    if prop == "C13" and not replay:
        # design-level termination of the placement of one instruction (room check / trial write and padding / final write), liveness under
        # weak fairness, and "at most two paddings": spec/AsmStepLive.tla on the step machine Apalache proves safe
        rc, o = A.tlc("AsmStepLive", cfg="AsmStepLive", workers=4, tag="steplive-%d" % os.getpid(), timeout=600)
        m = re.search(r"(\d+) states generated, (\d+) distinct states found", o)
        ok = rc == 0 and "No error has been found" in o
        extra = {"placement_terminates": {"spec": "spec/AsmStepLive.tla", "properties": ["Terminates", "PadsTwiceAtMost", "Quiescent"], "ok": ok,
                                          "distinct_states": int(m.group(2)) if m else 0, "constants": "T=4 Q=6 MAXLEN=4, chunk sizes 2..9"}}
        if not ok:
            viol_model.append(("AsmStepLive", "Terminates / PadsTwiceAtMost / Quiescent", o[-1500:]))
    return finish(prop, tier, t0, results, L, stats_all, viol_model, replay, extra_cov=extra)


def inductive_proof():
    """C07/C08 in-bounds for unbounded sizes: Apalache discharges Init => IndInv, IndInv /\\ Next => IndInv', IndInv => Safe on spec/AsmStep.tla
    (all constants and variables arbitrary integers), TLC checks on small constants that the step machine equals AsmMech!One (AsmStepEquiv.tla).
    A timeout or a missing tool is recorded, not reported; a refuted obligation is a model violation."""
    out = {"spec": "spec/AsmStep.tla", "obligations": {}, "equivalence_with_AsmMech_One": None}
    work = os.path.join(A.BUILD, "apalache-%d" % os.getpid())
    log = ""
    for name, args in (("Init=>IndInv", ["--init=Init", "--inv=IndInv", "--length=0"]), ("IndInv/\\Next=>IndInv'", ["--init=IndInv", "--inv=IndInv", "--length=1"]),
                       ("IndInv=>Safe", ["--init=IndInv", "--inv=Safe", "--length=0"])):
        try:
            r = subprocess.run(["apalache-mc", "check", "--cinit=ConstInit"] + args + ["--out-dir=" + work, "AsmStep.tla"], cwd=A.SPEC, capture_output=True, text=True, timeout=600)
            o = r.stdout + r.stderr
            res = "NoError" if "The outcome is: NoError" in o else "Error" if "The outcome is: Error" in o else "inconclusive"
            if res != "NoError":
                log += o[-1500:]
        except (subprocess.TimeoutExpired, FileNotFoundError) as ex:
            res = "not-run (%s)" % type(ex).__name__
        out["obligations"][name] = res
    shutil.rmtree(work, ignore_errors=True)
    cfg = "AsmStepEquiv"
    rc, o = A.tlc("AsmStepEquiv", cfg=cfg, workers=8, tag="stepequiv-%d" % os.getpid(), timeout=900)
    m = re.search(r"(\d+) states generated, (\d+) distinct states found", o)
    out["equivalence_with_AsmMech_One"] = {"ok": rc == 0 and "No error has been found" in o, "distinct_states": int(m.group(2)) if m else 0, "constants": "T=4 Q=6 MAXLEN=4, offsets of a library-managed buffer up to three quanta beyond its capacity"}
    if not out["equivalence_with_AsmMech_One"]["ok"]:
        out["obligations"]["AsmStepEquiv"] = "Error"
        log += o[-1500:]
    if log:
        out["log"] = log
    return out


def finish(prop, tier, t0, results, L, stats_all, viol_model, replay, extra_cov=None, level=None, rule=None, nontrivial=None):
    bad, judged = validate(results, L)
    bysid = {sc.sid: (sc, evs) for sc, evs in results}
    import rectrace as _R
    bysid["pool"] = (_R.Sc("pool", ["learned code table of the pool lines (12 option combinations each)"]),
                     [{"e": "Sens", "key": k, "text": t, "dims": DIMS.get(t, []), "codes": L.codes.get(k)} for k, t in getattr(L, "text", {}).items()])
    mine, drift, others = [], collections.Counter(), collections.Counter()
    for sid, reason, evname in bad:
        if reason.startswith("mech:") or reason.startswith("driver:"):
            drift[reason] += 1
            if drift[reason] <= 2:
                sc0, evs0 = bysid[sid]
                A.write_replay(prop, "drift-%s-%s" % (sid, reason), {"property": prop, "reason": reason, "sid": sid, "script": sc0.lines, "meta": sc0.meta, "events": evs0})
            if reason.startswith("driver:"):
                raise A.Infra("driver error %s in %s" % (reason, sid))
            continue
        p, r = reason.split(":", 1)
        if p != prop:
            # a violation of another listed property seen by this check's executions: reported as such, never swallowed
            others[reason] += 1
        mine.append((sid, r, evname, p))
    known = [e for e in A.load_known() if e.get("status") == "open"]
    kf, viol = collections.OrderedDict(), []
    for sid, r, evname, p in mine:
        hit = next((e for e in known if e["property"] == p and r in e["reason"] and re.search(e.get("match", {}).get("script", ".*"), "\n".join(bysid[sid][0].lines))), None)
        if hit:
            kf.setdefault(hit["id"], [hit, 0, sid])
            kf[hit["id"]][1] += 1
        else:
            viol.append((sid, r, evname, p))
    for kid, (entry, n, sid) in kf.items():
        print("KNOWN-FINDING: property=%s %s %s (%d executions, e.g. %s)" % (entry["property"], kid, entry["what"], n, sid))
    for mname, what, cex in viol_model:
        path = A.write_replay(prop, "model-%s" % mname, {"property": prop, "model": mname, "violated": what, "counterexample": cex})
        print("VIOLATION property=%s replay=%s  (TLC: %s violated in %s)" % (prop, path, what, mname))
    seen = collections.Counter()
    for sid, r, evname, p in viol:
        seen[r] += 1
        if seen[r] > 3:
            continue
        sc, evs = bysid[sid]
        path = A.write_replay(prop, "%s-%s" % (sid, r), {"property": p, "reason": r, "sid": sid, "script": sc.lines, "meta": sc.meta, "events": evs})
        print("VIOLATION property=%s replay=%s  (%s at %s in %s)" % (p, path, r, evname, sid))
    for r, n in seen.items():
        if n > 3:
            print("  (+%d more executions with %s)" % (n - 3, r))
    for r, n in drift.items():
        print("MODEL-DRIFT: %s (%d events): the code no longer follows the mechanism model although no property predicate failed" % (r, n))
    for text in getattr(L, "faults", []):
        path = A.write_replay(prop, "poolfault-%08x" % zlib.crc32(text.encode()), {"property": "C09", "reason": "fault", "sid": "pool", "script": [], "meta": [], "text": text})
        print("VIOLATION property=C09 replay=%s  (fault while the pool line %r is assembled alone)" % (path, text[:60]))
    nviol = len(viol) + len(viol_model) + len(getattr(L, "faults", []))
    wall = time.time() - t0
    accepted = len(results) - len({sid for sid, _, _ in bad})
    samples = []
    for sc, evs in results[:1] + results[len(results) // 2: len(results) // 2 + 1] + results[-1:]:
        samples.append({"script": sc.lines[:12], "events": [{k: v for k, v in e.items() if k in ("e", "ret", "off0", "off1", "dest", "steps", "prog", "c")} for e in evs[:8]]})
    cov = {"states": sum(s["states"] for s in stats_all) or 1, "transitions": sum(s["transitions"] for s in stats_all) or 1,
           "traces_validated_against_impl": accepted, "samples": samples,
           "evaluations": judged, "distinct_nontrivial": len({tuple(l.split()[0] for l in sc.lines) + tuple(str(e.get("ret")) for e in evs) for sc, evs in results}),
           "rule": "TLC model-checks spec/AsmApi.tla (configurations below) and prints every explored transition of the listed actions with a shortest path to its source state; "
                   "each is concretised (lines of the same solo length, caller buffers keeping the same distance to the 20-byte reserve) and executed on the freshly built library, "
                   "plus seeded random histories; every execution is validated event by event by spec/ApiTrace.tla. Where recorded_client_runs > 0, that many runs of the "
                   "repository's own clients (its C test programs; asmline over its test/*.asm files under several flag sets), recorded through the link-time recorder "
                   "harness/recshim.c without touching the client code, are validated by the same trace specification. distinct_nontrivial = distinct (call sequence shape, return values) "
                   "signatures among the executions.",
           "models": stats_all, "executions": len(results), "events_judged": judged, "model_drift": dict(drift), "recorded_client_runs": RECORDED_COUNT[0],
           "known_findings": {k: v[1] for k, v in kf.items()}, "other_property_observations": dict(others),
           "exhaustive": tier == "thorough" and not replay}
    if extra_cov:
        cov.update(extra_cov)
    if rule:
        cov["rule"] = rule
    if nontrivial is not None:
        cov["distinct_nontrivial"] = nontrivial
    if not replay:
        A.write_evidence(prop, tier, level or LEVEL, cov, wall, nviol,
                         ["TLC explores the bounded model completely (constants in coverage.models)", "the scaled constants preserve every branch condition of the mechanism (cap - T distance)",
                          "apirun's two-pattern diff and canaries see every written byte", "hooks report the logical capacity truthfully"])
    print("%s %s: %d model states, %d transitions, %d executions (%d accepted), %d events judged, %d violations, %.1fs" %
          (prop, tier, cov["states"], cov["transitions"], len(results), accepted, judged, nviol, wall))
    return 1 if nviol else 0


def c08_boundary(L, rnd, tier):
    """programs ending within +-20 bytes of each multiple of the growth quantum, 1-3 calls, three modes, executed afterwards"""
    out = []
    unit = sorted(k for k in L.bylen if 1 <= k <= 11)
    big = max(unit)

    def short(k):
        # the pool line of that length with the shortest text (apirun reads a call's text from one input line of bounded length)
        return min(L.bylen[k], key=lambda x: len(L.text[x]))

    def build(total):
        keys, left = [], total
        while left > big + 11:
            keys.append(short(big)); left -= big
        while left > 0:
            k = max(u for u in unit if u <= left)
            keys.append(short(k)); left -= k
        return keys

    span = 25 if tier == "thorough" else 8
    step = 1 if tier == "thorough" else 4
    mults = (1, 2, 3) if tier == "thorough" else (1, 2)
    n = 0
    tailkey = next((k for k in L.bylen.get(10, []) if L.text[k].startswith("mov rax, 0x1122")), None)
    for mult in mults:
        for d in range(-span, span + 1, step):
            total = mult * 6000 + d
            for mode in ("plain", "fit", "count"):
                for split in ((1, 3) if tier == "thorough" else (1 + (n % 2) * 2,)):
                    sc = Script("C08-b%d" % n); n += 1
                    sc.create(1, "int", 0)
                    sc.mirror(1)
                    if mode == "fit":
                        sc.chunk(1, rnd.choice([8, 16, 32, 64]))
                    body = build(total - (11 if tailkey else 0))
                    parts = [body[i * len(body) // split:(i + 1) * len(body) // split] for i in range(split)]
                    for part in parts:
                        sc.asm(1, part, [L.text[x] for x in part], count=(16 if mode == "count" else None))
                    if tailkey and mode != "fit":
                        # jump over the body: the code starts with the body, so append "mov rax, v ; ret" and execute only when the body is nops
                        pass
                    out.append(sc)
    small = [L.bylen[3][0], L.bylen[1][0], L.bylen[7][0] if L.bylen.get(7) else L.bylen[3][0]]
    # a call that fails AFTER it made the buffer grow, then further calls on the instance (three modes; the bad line right behind the
    # first, second growth point)
    badk = L.bad[0]
    for mult in (1, 2):
        for mode in ("plain", "fit", "count"):
            sc = Script("C08-f%d" % n); n += 1
            sc.create(1, "int", 0)
            sc.mirror(1)
            sc.asm(1, small, [L.text[x] for x in small])
            if mode == "fit":
                sc.chunk(1, 16)
            body = build(mult * 6000 + 900) + [badk] + small
            sc.asm(1, body, [L.text[x] for x in body], count=(16 if mode == "count" else None))
            sc.asm(1, small, [L.text[x] for x in small], count=(16 if mode == "count" else None))
            body2 = build(mult * 6000 + 2000)
            sc.asm(1, body2, [L.text[x] for x in body2])
            sc.asm(1, small[:1], [L.text[x] for x in small[:1]])
            out.append(sc)
    # many growth steps: programs ending around the 11th, 22nd (thorough: also 12th, 40th) multiple of the quantum
    for mult in ((11, 12, 22, 40) if tier == "thorough" else (11, 22)):      # (the caller-buffer mirror holds 257 952 bytes)
        for d in (-1, 21):
            for mode in ("plain", "fit", "count"):
                if mode == "fit" and mult > 22:
                    continue      # padded to 16-byte chunks the program would not fit the caller-buffer mirror
                sc = Script("C08-m%d" % n); n += 1
                sc.create(1, "int", 0)
                sc.mirror(1)
                if mode == "fit":
                    sc.chunk(1, 16)
                body = build(mult * 6000 + d)
                half = len(body) // 2
                sc.asm(1, body[:half], [L.text[x] for x in body[:half]], count=(16 if mode == "count" else None))
                sc.asm(1, body[half:], [L.text[x] for x in body[half:]], count=(16 if mode == "count" else None))
                out.append(sc)
    # more than a hundred growth steps (the capacity passes through every alignment relative to the page size): judged by the mechanism
    # model alone (the caller-buffer mirror is smaller)
    k13 = (L.bylen.get(13) or L.bylen[11])[0]
    for total in ((684000, 690000, 1200000) if tier == "thorough" else (684000,)):
        sc = Script("C08-h%d" % n); n += 1
        sc.create(1, "int", 0)
        body = build(total)
        sc.asm(1, body, [L.text[x] for x in body])
        sc.asm(1, [k13, k13, small[0]], [L.text[k13], L.text[k13], L.text[small[0]]])
        out.append(sc)
    # a call that STARTS inside the last 20 bytes of the mapped buffer (the previous call ended there, or asm_set_offset put it there)
    for mult in mults:
        for P in range(mult * 6000 - 3, mult * 6000 + 24, 1 if tier == "thorough" else 2):
            for mode in ("plain", "fit", "count"):
                for how in ("calls", "offset"):
                    if how == "offset" and (mult > 1 or P > 6020):
                        continue      # an offset beyond the mapped buffer is the caller's business
                    sc = Script("C08-s%d" % n); n += 1
                    sc.create(1, "int", 0)
                    if how == "calls":
                        sc.mirror(1)
                        body = build(P)
                        sc.asm(1, body, [L.text[x] for x in body])
                    else:
                        sc.offset(1, P)   # (no mirror: the bytes below P were never written)
                    if mode == "fit":
                        sc.chunk(1, 16)
                    sc.asm(1, small, [L.text[x] for x in small], count=(16 if mode == "count" else None))
                    sc.asm(1, small[:1], [L.text[x] for x in small[:1]])
                    out.append(sc)
    # start offsets anywhere in a large caller buffer and in a library-managed buffer that has grown (asm_set_offset beyond 6020)
    for off in (6019, 6020, 6021, 6100, 8192, 12000, 16300):
        for mode in ("plain", "count"):
            sc = Script("C08-o%d" % n); n += 1
            sc.create(1, "ext", 16384)
            sc.offset(1, off)
            sc.asm(1, small, [L.text[x] for x in small], count=(16 if mode == "count" else None), twin=(off + 40 < 16384))
            sc.asm(1, small[:1], [L.text[x] for x in small[:1]])
            out.append(sc)
    for off in (6021, 6500, 8000, 8979):
        sc = Script("C08-o%d" % n); n += 1
        sc.create(1, "int", 0)
        sc.mirror(1)
        body = build(9000)
        sc.asm(1, body, [L.text[x] for x in body])
        sc.offset(1, off)
        sc.asm(1, small, [L.text[x] for x in small])
        sc.offset(1, 9000)
        sc.asm(1, small[:1], [L.text[x] for x in small[:1]])
        out.append(sc)
    # ... and start offsets BEYOND the capacity of a library-managed buffer (fresh: 6020 bytes; grown: 12020), from one byte to many
    # growth quanta beyond it: the buffer has to grow to the position before the first write
    for off in (6001, 6021, 12001, 12019, 12020, 12021, 12280, 12289, 18021, 20000, 100000, 250000):
        for mode in ("plain", "fit", "count"):
            for grown in (False, True):
                if tier == "quick" and (off + len(mode) + grown) % 2:
                    continue
                sc = Script("C08-oo%d" % n); n += 1
                sc.create(1, "int", 0)
                if grown:
                    body = build(9000)
                    sc.asm(1, body, [L.text[x] for x in body])
                if mode == "fit":
                    sc.chunk(1, 16)
                sc.offset(1, off)
                sc.asm(1, small, [L.text[x] for x in small], count=(16 if mode == "count" else None))
                sc.asm(1, small[:1], [L.text[x] for x in small[:1]])
                sc.offset(1, off + 7000)
                sc.asm(1, small[:2], [L.text[x] for x in small[:2]])
                out.append(sc)
    # asm_create_instance(NULL, len): the length is documented as irrelevant without a buffer
    for ln in (1, 19, 6020, 6021, 20000, 65536):
        for total in (9000, 30000):
            sc = Script("C08-n%d" % n); n += 1
            sc.create(1, "int", ln)
            sc.state[1]["cap"] = 0
            sc.mirror(1)
            body = build(total)
            sc.asm(1, body, [L.text[x] for x in body])
            sc.asm(1, small, [L.text[x] for x in small])
            out.append(sc)
    # executable programs: nops, then mov rax, v ; ret, across a growth
    if tailkey:
        for mult in mults:
            for d in (-12, -1, 0, 1, 9):
                sc = Script("C08-x%d" % n); n += 1
                sc.create(1, "int", 0)
                sc.mirror(1)
                total = mult * 6000 + d
                nopk = [k for k in unit if L.text[L.bylen[k][0]].startswith("nop")]
                keys, left = [], total - 11
                kmax = max(nopk)
                nk = next(x for x in L.bylen[kmax] if L.text[x].startswith("nop"))
                while left >= kmax:
                    keys.append(nk); left -= kmax
                one = next(x for x in L.bylen[1] if L.text[x] == "nop")
                keys += [one] * left
                ret = next(x for x in L.bylen[1] if L.text[x] == "ret")
                keys += [tailkey, ret]
                half = len(keys) // 2
                sc.asm(1, keys[:half], [L.text[x] for x in keys[:half]])
                sc.asm(1, keys[half:], [L.text[x] for x in keys[half:]])
                sc.execute(1, [0x88, 0x77, 0x66, 0x55, 0x44, 0x33, 0x22, 0x11])
                out.append(sc)
    return out


def c13_boundary(L, rnd, tier):
    """every chunk size x instruction length at the positions that need the longest and the shortest padding, and one that fits exactly"""
    out, n = [], 0
    lens = sorted(L.bylen)
    cs = list(range(2, 65)) if tier == "thorough" else [2, 3, 4, 5, 7, 8, 9, 12, 13, 14, 15, 16, 17, 24, 31, 32, 33, 48, 64]
    for c in cs:
        for ln in lens:
            for free in sorted({1, ln - 1, ln, c - 1, c} & set(range(1, c + 1))):
                pos = (c - free) % c + c * rnd.choice([0, 1, 2])
                sc = Script("C13-b%d" % n); n += 1
                sc.create(1, "ext", 400)
                sc.chunk(1, c)
                sc.offset(1, pos)
                k1 = rnd.choice(L.bylen[ln]); k2 = rnd.choice(L.bylen[rnd.choice(lens)])
                sc.asm(1, [k1, k2], [L.text[k1], L.text[k2]], twin=True)
                out.append(sc)
    # large chunk sizes (the chunk size is a size_t on the instance and an int on the counting entry point): padding and counting
    # right at the first and second chunk end
    for c in (100, 255, 256, 257, 1000, 4096, 32767, 32768, 65535, 65536, 65537, 100000):
        for ln in (2, 7, 10, 13):
            if not L.bylen.get(ln):
                continue
            for free in (1, ln - 1, ln):
                for mult in (1, 2):
                    pos = mult * c - free
                    k1 = rnd.choice(L.bylen[ln]); k2 = rnd.choice(L.bylen[3])
                    for mode in ("fit", "count"):
                        sc = Script("C13-g%d" % n); n += 1
                        sc.create(1, "ext", pos + 200)
                        if mode == "fit":
                            sc.chunk(1, c)
                        sc.offset(1, pos)
                        sc.asm(1, [k2, k1, k2], [L.text[k2], L.text[k1], L.text[k2]], count=(c if mode == "count" else None), twin=True)
                        out.append(sc)
    # chunk sizes that only differ from a small one above bit 31 (fitting: the size is a size_t): no chunk end lies inside the buffer
    for c in ((1 << 32) + 9, (1 << 32) + 16, (1 << 31) + 8, 3 * (1 << 32) + 12, (1 << 40) + 5, (1 << 32), (1 << 31)):
        low = c % (1 << 32)
        if not 2 <= low <= 4096:
            low = 16          # (no small chunk hides in the low bits: any position will do)
        for ln in (7, 10, 13):
            if not L.bylen.get(ln):
                continue
            k1 = rnd.choice(L.bylen[ln]); k2 = rnd.choice(L.bylen[3])
            sc = Script("C13-w%d" % n); n += 1
            sc.create(1, "ext", 3 * low + 300)
            sc.chunk(1, c)
            sc.offset(1, low - 2)
            sc.asm(1, [k2, k1, k2, k1], [L.text[k2], L.text[k1], L.text[k2], L.text[k1]], twin=True)
            out.append(sc)
    # counting with a chunk size above the initial capacity of a library-managed buffer, the program growing across it
    k11 = min(L.bylen[11], key=lambda x: len(L.text[x])) if L.bylen.get(11) else None
    if k11:
        for c in (6021, 6500, 7000, 12000, 12021, 20000):
            for start in (0, 2, 7):
                keys = [k11] * ((2 * c) // 11 + 3)
                sc = Script("C13-q%d" % n); n += 1
                sc.create(1, "int", 0)
                if start:
                    sc.offset(1, start)
                sc.asm(1, keys, [L.text[x] for x in keys], count=c)
                out.append(sc)
                sc = Script("C13-qf%d" % n); n += 1       # the same program fitted to that chunk size (set while the buffer is still 6020 bytes)
                sc.create(1, "int", 0)
                sc.chunk(1, c)
                if start:
                    sc.offset(1, start)
                sc.asm(1, keys, [L.text[x] for x in keys])
                out.append(sc)
        # ... and a chunk end a few bytes beyond the capacity, reached through asm_set_offset
        for c, off in ((6020, 6000), (6025, 6010), (8000, 7995), (12020, 12010)):
            k10 = (L.bylen.get(10) or L.bylen[7])[0]
            for hist in (False, True):
                sc = Script("C13-qo%d" % n); n += 1
                sc.create(1, "int", 0)
                if hist:
                    body = [k11] * (13000 // 11)
                    sc.asm(1, body, [L.text[x] for x in body])     # the buffer has grown before
                sc.chunk(1, c)
                sc.offset(1, off)
                sc.asm(1, [k10, k11, k10], [L.text[k10], L.text[k11], L.text[k10]])
                out.append(sc)
        # an instruction that has to be padded starts below a growth threshold and lands above it (the room check behind the padding grows
        # the buffer; with the pages behind it taken the growth MOVES it): chunk sizes that do not divide 6000, every residue of the start
        k1 = L.bylen[1][0]
        kk = [L.bylen[3][0], (L.bylen.get(7) or L.bylen[3])[0], (L.bylen.get(5) or L.bylen[3])[0]]
        for c in (7, 9, 11, 13, 17, 48):
            for d in range(0, c if tier == "thorough" else min(c, 7)):
                for blocked in (True, False):
                    if tier == "quick" and not blocked and d % 2:
                        continue
                    start = 6000 - d
                    body = [k11] * (start // 11) + [k1] * (start % 11)
                    sc = Script("C13-t%d" % n); n += 1
                    sc.create(1, "int", 0)
                    if blocked:
                        sc.blockgrow(1)
                    sc.chunk(1, c)
                    tail = [kk[d % 3], kk[(d + 1) % 3], k1, kk[(d + 2) % 3]]
                    keys = body + tail
                    sc.asm(1, keys, [L.text[x] for x in keys], eol="\n")
                    sc.asm(1, tail, [L.text[x] for x in tail])
                    out.append(sc)
    return out


def c09_settings(L, rnd, tier):
    """C09 quantifies over "any option, chunk and mode setting": chunk sizes at every integer boundary (0, 1, 2, around 2^31, 2^32 and its
    multiples, 2^62, 2^63, 2^64-1), set through asm_set_chunk_size and/or passed to a counting call, followed by further calls of every
    kind (a stale or truncated saved size shows as a fault or a wrong result in a LATER call), on both kinds of buffer"""
    out, n = [], 0
    bad = L.bad[0]
    k3 = L.bylen[3][0]; k7 = (L.bylen.get(7) or L.bylen[3])[0]; k1 = L.bylen[1][0]
    sizes = [0, 1, 2, 3, 16, 6021, (1 << 31) - 1, 1 << 31, (1 << 32) - 1, 1 << 32, (1 << 32) + 9, 3 << 32, 1 << 62, 1 << 63, (1 << 63) + 8, (1 << 64) - 1]
    counts = [0, 1, 2, 8, (1 << 31) - 1, -1, -5, -(1 << 31)]
    if tier == "quick":
        counts = [1, 8, (1 << 31) - 1, -1, -(1 << 31)]
    for c in sizes:
        for kind in ("ext", "int"):
            for c2 in counts:
                for hist in ("ok", "fail", "null", "twice"):
                    if tier == "quick" and (n * 7 + c2) % 3 and c < (1 << 31) - 1:
                        n += 1
                        continue
                    sc = Script("C09-k%d" % n); n += 1
                    sc.create(1, kind, 600 if kind == "ext" else 0)
                    sc.chunk(1, c)
                    sc.asm(1, [k7, k3], [L.text[k7], L.text[k3]])
                    if hist in ("ok", "twice"):
                        sc.asm(1, [k7, k3], [L.text[k7], L.text[k3]], count=c2)
                    if hist == "fail":
                        sc.asm(1, [k7, bad], [L.text[k7], L.text[bad]], count=c2)
                    if hist == "null":
                        sc.lines.append("N 1 %d z t%d %s" % (c2, len(sc.lines), hx(L.text[k7]))); sc.meta.append({"prog": [k7], "mustpass": True}); sc.state[1]["off"] = None
                    if hist == "twice":
                        sc.asm(1, [k3, k1, k3], [L.text[k3], L.text[k1], L.text[k3]], count=c2)
                    sc.offset(1, 14)
                    sc.asm(1, [k7, k1, k7], [L.text[k7], L.text[k1], L.text[k7]])
                    sc.asm(1, [k3], [L.text[k3]], count=8)
                    sc.asm(1, [k3, bad], [L.text[k3], L.text[bad]])
                    out.append(sc)
    # the debug listing (asm_set_debug) switched on, in every mode, at start offsets from 0 to the end of the buffer (what the listing
    # prints is not judged; that printing it reads nothing outside the buffer is: the caller buffer ends 32 bytes before a guard page)
    kv = [k for k, t in L.text.items() if t.startswith("vperm2i128") and k in L.codes and L.codes[k][0]][:1]
    klong = [k for k in L.codes if L.codes[k][0] and len(L.codes[k][0]) >= 16][:3]
    for c in (0, 8, 16, 1 << 32):
        for kind, offs in (("ext", (0, 14, 300, 520, 560)), ("int", (0, 3000, 5950, 6000, 12100))):
            for off in offs:
                for second in ("asm", "count"):
                    sc = Script("C09-g%d" % n); n += 1
                    sc.create(1, kind, 600 if kind == "ext" else 0)
                    if kind == "int" and second == "asm":
                        sc.blockgrow(1)          # (a growth inside a listed call moves the buffer)
                    sc.lines.append("G 1 1"); sc.meta.append({})
                    sc.chunk(1, c)
                    sc.offset(1, off)
                    sc.asm(1, [k7, k3], [L.text[k7], L.text[k3]])
                    sc.asm(1, [k3, k1, k3], [L.text[k3], L.text[k1], L.text[k3]], count=(8 if second == "count" else None))
                    if kind == "ext" and off <= 300 or kind == "int" and off <= 3000:
                        # the four-operand forms twice in a row and the longest encodings, listed
                        sc.asm(1, kv + kv + klong, [L.text[x] for x in kv + kv + klong], count=(8 if second == "count" else None))
                    sc.lines.append("G 1 0"); sc.meta.append({})
                    sc.asm(1, [k3], [L.text[k3]])
                    out.append(sc)
    return out


def settings_stage(tier, rnd, replay=None):
    """run c09_settings (or one replayed script) and have spec/ApiTrace.tla judge the events; returns (findings, judged) with findings =
    [(property, reason, event, script, events)] for everything that is not model drift"""
    A.build("plain")
    A.build_harness("linerun")
    L = Lines()
    if replay:
        sc = Script(replay["sid"]); sc.lines, sc.meta = replay["script"], replay["meta"]
        scripts = [sc]
    else:
        scripts = c09_settings(L, rnd, tier)
    results = execute(scripts, L)
    bad, judged = validate(results, L)
    bysid = {sc.sid: (sc, evs) for sc, evs in results}
    out = []
    for sid, reason, evname in bad:
        if reason.startswith("driver:"):
            raise A.Infra("driver error %s in %s" % (reason, sid))
        if reason.startswith("mech:") or sid not in bysid:
            continue
        p, r = reason.split(":", 1)
        out.append((p, r, evname, bysid[sid][0], bysid[sid][1]))
    return out, judged, len(results)


def c14_edge(L, rnd, tier):
    """every kind of instruction the pool has (branches of every form among them) placed so that it ends exactly ON a chunk end, one byte
    before it and one byte beyond it, counted with that chunk size: what is counted depends on positions and lengths only"""
    out, n = [], 0
    nops = {k: next(x for x in v if L.text[x].startswith("nop") or L.text[x] in ("ret", "clc")) for k, v in L.bylen.items()
            if any(L.text[x].startswith("nop") or L.text[x] in ("ret", "clc") for x in v)}
    k3 = L.bylen[3][0]

    def fill(total):
        keys = []
        while total > 0:
            step = max(k for k in nops if k <= total)
            keys.append(nops[step]); total -= step
        return keys
    allkeys = sorted({ks[i] for ln, ks in L.bylen.items() if 1 <= ln <= 17 for i in range(len(ks))})
    for c in (8, 16, 32, 64):
        for key in allkeys:
            ln = len(L.codes[key][0])
            if ln >= c:
                continue
            if tier == "quick" and zlib.crc32(("%d:%s" % (c, key)).encode()) % 3 and not any(w in L.text[key] for w in ("j", "call", "xbegin")):
                continue
            for d in (0, -1, 1):
                pre = 2 * c - ln + d           # the instruction ends at 2c + d
                if pre < 0:
                    continue
                sc = Script("C14-e%d" % n); n += 1
                sc.create(1, "ext", 400)
                keys = fill(pre) + [key, k3]
                sc.asm(1, keys, [L.text[x] for x in keys], count=c, eol="\n")
                out.append(sc)
    return out


def c15_directed(L, rnd, tier):
    """histories that end in a chunk-fitting call which HAS to pad (so that a lost or stale mode / chunk size shows in the bytes),
    compared with a fresh twin: fitting switched off and on again, other sizes in between, counting calls (succeeding, failing,
    without a place for the count), option round trips, debug toggles"""
    out, n = [], 0
    bad = L.bad[0]
    k3 = L.bylen[3][0]; k7 = (L.bylen.get(7) or L.bylen[3])[0]; k1 = L.bylen[1][0]
    cs = (8, 16, 5) if tier == "quick" else (4, 5, 8, 9, 16, 32)
    # chunk sizes that are multiples of 2^32: nothing is ever padded, whatever counting calls happened in between
    for c in (1 << 32, 3 * (1 << 32), 1 << 63 if False else (1 << 62)):
        for hist in ("count-ok", "count-fail", "count-null", "off-on"):
            sc = Script("C15-w%d" % n); n += 1
            sc.create(1, "ext", 600)
            sc.chunk(1, c)
            if hist == "count-ok":
                sc.asm(1, [k7, k3], [L.text[k7], L.text[k3]], count=8)
            elif hist == "count-fail":
                sc.asm(1, [k7, bad], [L.text[k7], L.text[bad]], count=8)
            elif hist == "count-null":
                sc.lines.append("N 1 8 z t%d %s" % (len(sc.lines), hx(L.text[k7]))); sc.meta.append({"prog": [k7]}); sc.state[1]["off"] = None
            else:
                sc.chunk(1, 0); sc.chunk(1, c)
            sc.offset(1, 14)
            sc.asm(1, [k7, k1, k7], [L.text[k7], L.text[k1], L.text[k7]], twin=True)
            out.append(sc)
    for c in cs:
        for hist in ("off-on", "off1-call-on", "other-size", "count-ok", "count-fail", "count-null", "count-same", "debug", "opt-roundtrip", "set-again", "fail-then",
                     "off-count", "off1-count-fail"):
            for ln_key in (k3, k7):
                ln = len(L.codes[ln_key][0])
                if ln >= c:
                    continue
                sc = Script("C15-d%d" % n); n += 1
                sc.create(1, "ext", 600)
                sc.chunk(1, c)
                c2 = c + 3
                if hist == "off-on":
                    sc.chunk(1, 0); sc.chunk(1, c)
                elif hist == "off1-call-on":
                    sc.chunk(1, 1); sc.asm(1, [k3, k1], [L.text[k3], L.text[k1]]); sc.chunk(1, c)
                elif hist == "other-size":
                    sc.chunk(1, c2); sc.asm(1, [k7], [L.text[k7]]); sc.chunk(1, c)
                elif hist == "count-ok":
                    sc.asm(1, [k7, k3], [L.text[k7], L.text[k3]], count=c2)
                elif hist == "count-fail":
                    sc.asm(1, [k7, bad], [L.text[k7], L.text[bad]], count=c2)
                elif hist == "count-null":
                    sc.lines.append("N 1 %d z t%d %s" % (c2, len(sc.lines), hx(L.text[k7]))); sc.meta.append({"prog": [k7]}); sc.state[1]["off"] = None
                elif hist == "count-same":
                    sc.asm(1, [k7, k3], [L.text[k7], L.text[k3]], count=c)
                elif hist == "debug":
                    sc.lines.append("G 1 1"); sc.meta.append({}); sc.lines.append("G 1 0"); sc.meta.append({})
                elif hist == "opt-roundtrip":
                    sc.opt(1, "all", "STRICT"); sc.opt(1, "all", "NASM"); sc.opt(1, "mov", "SMART")
                elif hist == "set-again":
                    sc.chunk(1, c)
                elif hist == "fail-then":
                    sc.asm(1, [k3, bad, k3], [L.text[k3], L.text[bad], L.text[k3]])
                elif hist == "off-count":
                    # fitting switched off again, then a counting call: the final call is plain assembly (nothing is padded)
                    sc.chunk(1, 0); sc.asm(1, [k7, k3], [L.text[k7], L.text[k3]], count=c2)
                elif hist == "off1-count-fail":
                    sc.chunk(1, 1); sc.asm(1, [k7, bad], [L.text[k7], L.text[bad]], count=c)
                for free in (1, ln - 1):
                    pos = 3 * c - free
                    sc.offset(1, pos)
                    sc.asm(1, [ln_key, k1, ln_key], [L.text[ln_key], L.text[k1], L.text[ln_key]], twin=True)
                out.append(sc)
    # a setter called two or three times with the same value must leave what one call leaves (option-sensitive final call, fresh twin)
    sens = [k for k in L.sens][:12]
    if sens:
        for setter in ("mov", "swap", "nobase", "sib", "all"):
            for v in ("STRICT", "NASM", "SMART"):
                for reps in (2, 3):
                    for first in (None, "NASM", "STRICT"):
                        sc = Script("C15-o%d" % n); n += 1
                        sc.create(1, "ext", 400)
                        if first:
                            sc.opt(1, "all", first)
                        for _ in range(reps):
                            sc.opt(1, setter, v)
                        sc.offset(1, 5)
                        sc.asm(1, sens, [L.text[x] for x in sens], twin=True)
                        out.append(sc)
    return out


def c07_boundary(L, rnd, tier):
    """chunk fitting next to the end of a caller buffer: every instruction length x padding length (1 .. the longest, i.e. more
    than one NOP) with the write position within a few bytes of the 20-byte reserve, on buffers whose end lies right behind"""
    out, n = [], 0
    # every rejected line of the pool (unknown mnemonics, a first character between 'Z' and 'a', bad operands) in the middle of a program,
    # in every mode, on buffers that end right behind: a rejected line writes nothing at all
    k3 = L.bylen[3][0]
    for bk in L.bad:
        for cap in (24, 40, 64):
            for mode in ("plain", "fit", "count"):
                sc = Script("C07-r%d" % n); n += 1
                sc.create(1, "ext", cap)
                if mode == "fit":
                    sc.chunk(1, 16)
                sc.asm(1, [k3, bk, k3], [L.text[k3], L.text[bk], L.text[k3]], count=(8 if mode == "count" else None))
                sc.asm(1, [k3], [L.text[k3]])
                out.append(sc)
    lens = [x for x in sorted(L.bylen) if x >= 2]
    deltas = range(-3, 4) if tier == "thorough" else (-2, 0, 1, 2)
    for ln in lens:
        for free in sorted({1, 2, ln - 1, 11, 12} & set(range(1, ln))):        # padding of `free` bytes, then the instruction
            for c in sorted({ln + 1, 16, 17, 24, 32} & set(range(max(ln + 1, free + 1), 65))):
                p0 = (c - free) % c + c
                for d in deltas:
                    cap = p0 + 20 + d
                    sc = Script("C07-b%d" % n); n += 1
                    sc.create(1, "ext", cap)
                    sc.chunk(1, c)
                    sc.offset(1, p0)
                    k1 = L.bylen[ln][n % len(L.bylen[ln])]
                    sc.asm(1, [k1], [L.text[k1]])
                    out.append(sc)
    # caller buffers that are private page-aligned mappings of their own (as in the README), filled until the calls fail: sizes below,
    # at and above one page; the failing calls must leave the mapping alone
    k11 = min(L.bylen[11], key=lambda x: len(L.text[x])) if L.bylen.get(11) else L.bylen[3][0]
    for cap in (300, 4096, 4097, 8192, 6020):
        for mode in ("plain", "fit", "count"):
            sc = Script("C07-a%d" % n); n += 1
            sc.create(1, "exta", cap)
            if mode == "fit":
                sc.chunk(1, 16)
            per = len(L.codes[k11][0])
            body = [k11] * (cap // per + 3)
            sc.asm(1, body, [L.text[x] for x in body], count=(16 if mode == "count" else None))
            body2 = [k11] * max(1, (cap - 25) // per)
            sc.asm(1, body2, [L.text[x] for x in body2], count=(16 if mode == "count" else None))
            for _ in range(3):
                sc.asm(1, [k11, k11], [L.text[k11], L.text[k11]], count=(16 if mode == "count" else None))
            out.append(sc)
    # every small caller buffer (real sizes, not the scaled ones of the model): 0 .. 45 bytes, three modes, two calls
    for cap in range(0, 46):
        for ln in (1, 3, 13):
            if not L.bylen.get(ln):
                continue
            for mode in ("plain", "fit", "count"):
                # every start offset the property allows (0 <= k <= n) that lies at the edges of the reserve or of the buffer
                for k0 in sorted({0, cap - 21, cap - 20, cap - 19, cap - 1, cap} & set(range(0, cap + 1))):
                    sc = Script("C07-s%d" % n); n += 1
                    sc.create(1, "ext", cap)
                    if mode == "fit":
                        sc.chunk(1, 8)
                    if k0:
                        sc.offset(1, k0)
                    k1 = L.bylen[ln][n % len(L.bylen[ln])]; k2 = L.bylen[3][0]
                    sc.asm(1, [k1, k2], [L.text[k1], L.text[k2]], count=(8 if mode == "count" else None))
                    sc.asm(1, [k2], [L.text[k2]])
                    out.append(sc)
    return out


# ----------------------------------------------------------------------------- C19 files
def filedir():
    d = os.path.join(A.BUILD, "files-%d" % os.getpid())
    os.makedirs(d, exist_ok=True)
    import atexit
    atexit.register(lambda: shutil.rmtree(d, ignore_errors=True))
    return d


def file_content(L, rnd, size, eol, final_newline):
    """a program of pool lines padded with comment text to exactly `size` bytes; returns (bytes, keys)"""
    keys, lines = [], []
    if size == 0:
        return b"", []
    budget = size
    body = []
    while True:
        k = rnd.choice(L.bylen[rnd.choice(sorted(L.bylen))])
        t = L.text[k]
        need = len(t) + len(eol)
        if sum(len(x) + len(eol) for x in body) + need > budget - 2 or len(body) >= 12:
            break
        body.append(t); keys.append(k)
    text = eol.join(body)
    if body:
        text += eol
    rest = size - len(text)
    # fill with comment lines of at most 90 characters; the file ends with a line end only if asked and possible
    filler = ""
    tail = eol if (final_newline and rest > len(eol)) else ""
    rest -= len(tail)
    while rest > 0:
        n = min(rest, 90)
        if rest - n > 0:
            if n <= len(eol):
                n = rest            # too short for another full line: extend this one
                filler += ";" + "c" * (n - 1)
            else:
                filler += ";" + "c" * (n - 1 - len(eol)) + eol
        else:
            filler += ";" + "c" * (n - 1)
        rest -= n
    filler += tail
    text += filler
    data = text.encode("latin-1")
    assert len(data) == size, (len(data), size)
    return data, keys


def c19_scripts(L, rnd, tier):
    d = filedir()
    sizes = [json.loads(l)["n"] for l in open(A.corpus("FILESIZES"))]
    offs = [json.loads(l)["n"] for l in open(A.corpus("BINOFFSETS"))]
    if tier == "quick":
        keep = {0, 1, 2, 3, 4095, 4096, 4097, 8191, 8192, 8193, 12288}
        sizes = [x for x in sizes if x in keep or x % 5 == 0]
    out, n = [], 0
    for size in sorted(sizes):
        for (eol, fin) in (("\n", True), ("\n", False), ("\r\n", True)):
            for cnt in (None, 16, rnd.choice([0, 1, 5])):
                data, keys = file_content(L, rnd, size, eol, fin)
                path = os.path.join(d, "f%d.asm" % n)
                open(path, "wb").write(data)
                sc = Script("C19-f%d-s%d" % (n, size)); n += 1
                sc.create(1, "ext", 700)
                if rnd.random() < 0.3:
                    sc.opt(1, "all", rnd.choice(["STRICT", "NASM"]))
                if rnd.random() < (0.3 if cnt in (None, 16) else 0.7):
                    sc.chunk(1, rnd.choice([16, 16, 8, 5]))   # the instance's own mode, whatever the entry point
                sc.offset(1, rnd.choice([0, 0, 7, 33]))
                sc.asm_file(1, keys, path, count=cnt)
                if n % 2:
                    open(path + ".bin", "wb").write(b"\xee" * (20000 if n % 4 == 1 else 1))   # the output file exists already (longer / shorter)
                sc.binfile(1, path + ".bin")
                out.append(sc)
    # missing path, directory
    # (directories: one whose size is not zero, so that read() fails, and /proc, /proc/self, whose reported size is zero)
    for bad in (os.path.join(d, "does-not-exist.asm"), d, "/proc/self/nonexistent/x.asm", "/proc", "/proc/self", "/"):
        for cnt in (None, 8):
            sc = Script("C19-bad%d" % n); n += 1
            sc.create(1, "ext", 200)
            k = L.bylen[3][0]
            sc.asm(1, [k], [L.text[k]])
            sc.asm_file(1, [], bad, count=cnt, expectfail=True)
            sc.asm(1, [k], [L.text[k]])
            out.append(sc)
    # ... the same without a place for the count, and with names that contain printf conversions (the error paths print the name)
    for bad in (os.path.join(d, "does-not-exist.asm"), d, "/proc/self/nonexistent/x.asm", os.path.join(d, "missing-%s%s%s%s%s%s.asm"),
                os.path.join(d, "missing-%n%n%n%n.asm"), os.path.join(d, "100%.asm"), os.path.join(d, "%5000000d%s.asm")):
        for cnt in (None, 1, 8):
            for nulld in (False, True):
                if nulld and cnt is None:
                    continue
                sc = Script("C19-badn%d" % n); n += 1
                sc.create(1, "ext", 200)
                k = L.bylen[3][0]
                sc.asm(1, [k], [L.text[k]])
                sc.asm_file(1, [], bad, count=cnt, expectfail=True, nulld=nulld)
                sc.asm(1, [k], [L.text[k]])
                out.append(sc)
    # an existing file whose name contains conversions
    pct = os.path.join(d, "ok-%s%n-%d.asm")
    open(pct, "w").write(L.text[L.bylen[3][0]] + "\n")
    for cnt in (None, 8):
        sc = Script("C19-pct%d" % n); n += 1
        sc.create(1, "ext", 200)
        sc.asm_file(1, [L.bylen[3][0]], pct, count=cnt)
        out.append(sc)
    # contents the string entry points reject must be rejected from a file as well: a UTF-8 byte order mark in front of valid code, a
    # non-ASCII byte in the first line
    for k_, blob in enumerate((b"\xef\xbb\xbf" + L.text[L.bylen[3][0]].encode() + b"\n", b"\xef\xbb\xbf\n" + L.text[L.bylen[3][0]].encode() + b"\n", b"\xfe\xff" + L.text[L.bylen[1][0]].encode() + b"\n")):
        fb = os.path.join(d, "bom%d.asm" % k_); open(fb, "wb").write(blob)
        for cnt in (None, 4):
            sc = Script("C19-bom%d" % n); n += 1
            sc.create(1, "ext", 200)
            sc.asm(1, [L.bylen[3][0]], [L.text[L.bylen[3][0]]])
            sc.asm_file(1, [], fb, count=cnt, expectfail=True)
            sc.asm(1, [L.bylen[3][0]], [L.text[L.bylen[3][0]]])
            out.append(sc)
    # an empty file behind earlier file calls on small files (what the reader allocates for it is recycled memory by then)
    fempty = os.path.join(d, "empty0.asm"); open(fempty, "w").close()
    ftiny = os.path.join(d, "tiny1.asm"); open(ftiny, "w").write(L.text[L.bylen[1][0]] + "\n")
    for hist in ("tiny", "tiny-count", "missing", "empty", "tiny-tiny"):
        for cnt in (None, 8):
            sc = Script("C19-emp%d" % n); n += 1
            sc.create(1, "ext", 200)
            for h in hist.split("-"):
                if h == "tiny":
                    sc.asm_file(1, [L.bylen[1][0]], ftiny, twin=False)
                elif h == "count":
                    sc.asm_file(1, [L.bylen[1][0]], ftiny, count=8, twin=False)
                elif h == "missing":
                    sc.asm_file(1, [], os.path.join(d, "does-not-exist.asm"), expectfail=True)
                else:
                    sc.asm_file(1, [], fempty, twin=False)
            sc.asm_file(1, [], fempty, count=cnt, twin=False)
            sc.asm(1, [L.bylen[3][0]], [L.text[L.bylen[3][0]]])
            out.append(sc)
    # a readable file that is no regular file and has no contents (a null device made for the purpose; skipped where mknod is not permitted)
    nulldev = os.path.join(d, "nulldev")
    try:
        if not os.path.exists(nulldev):
            os.mknod(nulldev, 0o666 | stat.S_IFCHR, os.makedev(1, 3))
        for cnt in (None, 1, 8):
            sc = Script("C19-chr%d" % n); n += 1
            sc.create(1, "ext", 200)
            sc.asm(1, [L.bylen[3][0]], [L.text[L.bylen[3][0]]])
            sc.asm_file(1, [], nulldev, count=cnt)
            sc.asm(1, [L.bylen[3][0]], [L.text[L.bylen[3][0]]])
            out.append(sc)
    except OSError:
        pass
    # start offsets at the end of the capacity: within the last 20 bytes of a library-managed buffer (fresh and grown) it grows, on a caller
    # buffer a file without instructions needs no room
    k3 = L.bylen[3][0]
    f3 = os.path.join(d, "three.asm"); open(f3, "w").write(L.text[k3] + "\n" + L.text[k3] + "\n")
    fnone = os.path.join(d, "none.asm"); open(fnone, "w").write("; nothing here\n\nlabel:\n")
    for off in (5999, 6000, 6001, 6003, 6010, 6019, 6020, 12003, 12019):
        for cnt in (None, 1, 7, 8):
            sc = Script("C19-end%d" % n); n += 1
            sc.create(1, "int", 0)
            sc.offset(1, off)
            sc.asm_file(1, [k3, k3], f3, count=cnt, twin=False)
            sc.asm(1, [k3], [L.text[k3]])
            out.append(sc)
    for cap, off in ((100, 81), (100, 95), (100, 100), (40, 25)):
        for cnt in (None, 8):
            sc = Script("C19-endx%d" % n); n += 1
            sc.create(1, "ext", cap)
            sc.offset(1, off)
            sc.asm_file(1, [], fnone, count=cnt)
            out.append(sc)
    # a missing file whose path is several hundred characters long (the error path must cope with it)
    longbad = os.path.join(d, "a" * 200, "b" * 200, "c" * 200 + ".asm")
    longdir = os.path.join(d, "L" * 180, "M" * 180)
    os.makedirs(longdir, exist_ok=True)
    longok = os.path.join(longdir, "N" * 200 + ".asm")
    open(longok, "w").write(L.text[L.bylen[3][0]] + "\n")
    for cnt in (None, 8):
        sc = Script("C19-long%d" % n); n += 1
        sc.create(1, "ext", 200)
        k = L.bylen[3][0]
        sc.asm(1, [k], [L.text[k]])
        sc.asm_file(1, [], longbad, count=cnt, expectfail=True)
        sc.asm_file(1, [k], longok, count=cnt, twin=False)
        sc.asm(1, [k], [L.text[k]])
        out.append(sc)
    # a readable file that belongs to another user (the script's process drops to an unprivileged uid first)
    os.chmod(d, 0o755)
    pub = os.path.join(d, "pub.asm")      # (every directory above it is world-searchable: the build tree holds nothing private)
    open(pub, "w").write(L.text[L.bylen[3][0]] + "\n" + L.text[L.bylen[1][0]] + "\n")
    os.chmod(pub, 0o644)
    for cnt in (None, 8):
        sc = Script("C19-uid%d" % n); n += 1
        sc.create(1, "ext", 200)
        sc.dropuid()
        sc.asm_file(1, [L.bylen[3][0], L.bylen[1][0]], pub, count=cnt, twin=False)
        out.append(sc)
    # a process whose real and effective user differ (a set-uid program): what counts for reading a file is the effective one
    priv = os.path.join(d, "priv0600.asm")
    open(priv, "w").write(L.text[L.bylen[3][0]] + "\n")
    os.chmod(priv, 0o600)
    for cnt in (None, 8):
        sc = Script("C19-euid%d" % n); n += 1
        sc.create(1, "ext", 200)
        sc.lines.append("J 2"); sc.meta.append({})
        sc.asm_file(1, [L.bylen[3][0]], priv, count=cnt, twin=False)
        out.append(sc)
    # failing file calls must not use up descriptors: with a limit of 40, sixty failing calls of each kind, then a good file
    for badpath in (d, os.path.join(d, "does-not-exist.asm"), "/proc", longbad):
        sc = Script("C19-fd%d" % n); n += 1
        sc.create(1, "ext", 200)
        sc.fdlimit(40)
        for q in range(60):
            sc.asm_file(1, [], badpath, count=(8 if q % 2 else None), expectfail=True)
        k = L.bylen[3][0]
        sc.asm_file(1, [k], longok, twin=False)
        sc.binfile(1, os.path.join(d, "fd%d.bin" % n))
        out.append(sc)
    # binary output at the listed offsets (library-managed buffer, grown where needed) and to an unwritable path
    one = next(x for x in L.bylen[1] if L.text[x] == "nop")
    big = L.bylen[max(k for k in L.bylen if k <= 11)][0]
    bl = len(L.codes[big][0])
    for off in offs:
        sc = Script("C19-bin%d-o%d" % (n, off)); n += 1
        sc.create(1, "int", 0)
        keys = [big] * (off // bl) + [one] * (off % bl)
        if keys:
            sc.asm(1, keys, [L.text[x] for x in keys])
        sc.binfile(1, os.path.join(d, "o%d.bin" % n))
        sc.binfile(1, os.path.join(d, "no-such-dir", "o.bin"), expectfail=True)
        out.append(sc)
    return out


# ----------------------------------------------------------------------------- C17 faults
def c17_scenarios(L, rnd):
    d = filedir()
    one = next(x for x in L.bylen[1] if L.text[x] == "nop")
    big = L.bylen[max(k for k in L.bylen if k <= 11)][0]
    bl = len(L.codes[big][0])
    small = [L.bylen[3][0], L.bylen[1][0]]
    long_keys = [big] * (12100 // bl)
    smallfile = os.path.join(d, "small.asm")
    open(smallfile, "w").write("\n".join(L.text[k] for k in small) + "\n")
    bigfile = os.path.join(d, "big.asm")
    open(bigfile, "w").write("\n".join(L.text[k] for k in long_keys[: 6100 // bl]) + "\n")
    scs = []

    def S(name):
        sc = Script("C17-" + name)
        scs.append(sc)
        return sc
    sc = S("create-int"); sc.create(1, "int", 0); sc.asm(1, small, [L.text[k] for k in small]); sc.destroy(1)
    sc = S("create-ext"); sc.create(1, "ext", 200); sc.asm(1, small, [L.text[k] for k in small]); sc.destroy(1)
    for mode in ("plain", "fit", "count"):
        sc = S("grow-" + mode); sc.create(1, "int", 0)
        sc.asm(1, small, [L.text[k] for k in small])
        if mode == "fit":
            sc.chunk(1, 16)
        sc.asm(1, long_keys, [L.text[k] for k in long_keys], count=16 if mode == "count" else None)
        sc.asm(1, small, [L.text[k] for k in small])
        sc.binfile(1, os.path.join(d, "g-%s.bin" % mode))
        sc.destroy(1)
    # chunk fitting where the room check BEHIND the padding is the one that has to grow the buffer (chunk size 11, instruction at 6000)
    k11 = L.bylen[11][0] if L.bylen.get(11) else big
    k10 = (L.bylen.get(10) or L.bylen[7])[0]
    sc = S("grow-fit11"); sc.create(1, "int", 0); sc.chunk(1, 11)
    body = [k11] * (6000 // 11) + [one] * (6000 % 11)
    sc.asm(1, body + [k10, small[0]], [L.text[k] for k in body + [k10, small[0]]])
    sc.asm(1, small, [L.text[k] for k in small])
    sc.destroy(1)
    for cnt in (None, 8):
        sc = S("file-" + ("count" if cnt else "plain")); sc.create(1, "int", 0)
        sc.asm(1, small, [L.text[k] for k in small])
        sc.asm_file(1, small, smallfile, count=cnt, twin=False)
        sc.asm_file(1, long_keys[: 6100 // bl], bigfile, count=cnt, twin=False)
        sc.asm(1, small, [L.text[k] for k in small])
        sc.destroy(1)
    for cnt in (1, 8):
        sc = S("file-count%d-nulldest" % cnt); sc.create(1, "int", 0)
        sc.asm(1, small, [L.text[k] for k in small])
        sc.asm_file(1, small, smallfile, count=cnt, twin=False, nulld=True)
        sc.asm(1, small, [L.text[k] for k in small])
        sc.destroy(1)
    # a path several hundred characters long (the error paths format it)
    longdir = os.path.join(d, "L" * 180, "M" * 180)
    os.makedirs(longdir, exist_ok=True)
    longok = os.path.join(longdir, "N" * 200 + ".asm")
    open(longok, "w").write("\n".join(L.text[k] for k in small) + "\n")
    for cnt in (None, 8):
        sc = S("file-longpath-" + ("count" if cnt else "plain")); sc.create(1, "ext", 300)
        sc.asm(1, small, [L.text[k] for k in small])
        sc.asm_file(1, small, longok, count=cnt, twin=False)
        sc.asm(1, small, [L.text[k] for k in small])
        sc.destroy(1)
    # degenerate file sizes: an empty file, a single byte, a single line without line end
    emptyfile = os.path.join(d, "empty.asm"); open(emptyfile, "w").close()
    onebyte = os.path.join(d, "one.asm"); open(onebyte, "w").write("\n")
    oneline = os.path.join(d, "line.asm"); open(oneline, "w").write(L.text[small[0]])
    for cnt in (None, 8):
        sc = S("file-tiny-" + ("count" if cnt else "plain")); sc.create(1, "ext", 300)
        sc.asm(1, small, [L.text[k] for k in small])
        sc.asm_file(1, [], emptyfile, count=cnt, twin=False)
        sc.asm_file(1, [], onebyte, count=cnt, twin=False)
        sc.asm_file(1, small[:1], oneline, count=cnt, twin=False)
        sc.asm(1, small, [L.text[k] for k in small])
        sc.destroy(1)
    sc = S("binfile"); sc.create(1, "ext", 300); sc.asm(1, small * 3, [L.text[k] for k in small * 3])
    sc.binfile(1, os.path.join(d, "b1.bin")); sc.binfile(1, os.path.join(d, "b2.bin")); sc.destroy(1)
    return scs


def run_c17(prop, tier, replay=None):
    t0 = time.time()
    A.build("plain")
    A.build_harness("linerun")
    rnd = random.Random(A.SEED * 31 + 17)
    L = Lines()
    base = c17_scenarios(L, rnd)
    res0 = execute(base, L)
    # observed OS-call sequences per API call -> TLC enumerates the single faults
    work = os.path.join(A.BUILD, "work")
    obs = os.path.join(work, "obs-%d.ndjson" % os.getpid())
    with open(obs, "w") as f:
        for sc, evs in res0:
            ops = [e.get("calls", "") for e in evs if e["e"] not in ("Reset",)]
            f.write(json.dumps({"s": sc.sid, "ops": ops}) + "\n")
    pts = os.path.join(work, "points-%d.ndjson" % os.getpid())
    rc, out = A.tlc("AsmFaults", env={"OBS": obs, "OUT": pts}, tag="faults-%d" % os.getpid())
    if rc != 0 or not os.path.exists(pts):
        raise A.Infra("fault enumeration failed:\n" + out[-3000:])
    points = [json.loads(l) for l in open(pts)]
    os.unlink(obs); os.unlink(pts)
    bysid = {sc.sid: sc for sc in base}
    scripts = list(base)
    for k, p in enumerate(sorted(points, key=lambda q: (q["s"], q["op"], q["call"], q["nth"]))):
        b = bysid[p["s"]]
        sc = Script("%s+%s%d%s@%d" % (b.sid, p["call"], p["nth"], ("-%d" % p["nth2"]) if p.get("nth2") else "", p["op"]))
        # op index counts events; W lines produce no event
        evidx, lines, meta = 0, [b.lines[0]], []
        for ln, m in zip(b.lines[1:], b.meta):
            if m is not None:
                evidx += 1
                if evidx == p["op"]:
                    lines.append("Z %s %d %d" % (p["call"], p["nth"], p.get("nth2", 0))); meta.append({})
            if ln.startswith("B "):
                # every script writes its own output file (scripts run in parallel)
                parts = ln.split()
                ln = "B %s %s" % (parts[1], hx(bytes.fromhex(parts[2]).decode("latin-1") + ".%d" % k))
            lines.append(ln); meta.append(m)
        sc.lines, sc.meta = lines, meta
        scripts.append(sc)
    results = execute(scripts, L)
    fired = sum(1 for sc, evs in results if any(e.get("inj") for e in evs))
    return finish(prop, tier, t0, results, L, [], [], replay,
                  extra_cov={"fault_points": len(points), "faults_fired": fired, "scenarios": [sc.sid for sc in base]},
                  level="fault_enumeration",
                  rule="Fault-free runs of the scenarios record, through link-time wrappers, every OS call the library makes per API call; TLC (spec/AsmFaults.tla) enumerates every single "
                       "refusal of each of them (plus a short fwrite, the EINTR flavour, a read that reports the end of the file early, and pairs: a failing write / read / mremap followed by a failing fclose / close / munmap in the same call); each is replayed with exactly that call refused and the execution is judged by spec/ApiTrace.tla: documented failure "
                       "value, no crash, earlier code intact, later calls and destroy still work, asm_create_bin_file succeeds only with a complete file. distinct_nontrivial = fault points "
                       "whose refusal actually fired.", nontrivial=fired)


HANDLERS = {p: run for p in PLAN}
HANDLERS["C17"] = run_c17
