"""Concrete-syntax styles (C16): token-wise rewriting of the canonical rendering of an AST.
The set of styles is enumerated by TLC (GenCorpus.tla, StyleDims/Styles2); this module only applies one."""
import re
import alverif as A

DEFAULT = {"case": "lower", "sep": "space", "comma": ", ", "brack": "tight", "indent": "", "trail": "",
           "eol": "none", "zeros": "asis", "radix": "asis"}


def tokens(ast):
    """structured tokens of the canonical rendering"""
    t = [("word", ast["mn"])]
    for j, o in enumerate(ast["opds"]):
        t.append(("sep",) if j == 0 else ("comma",))
        k = o["k"]
        if k == "r":
            t.append(("word", A.regname(o)))
        elif k == "i":
            if o.get("kw"):
                t += [("word", o["kw"]), ("sp",)]
            t.append(("num", o["neg"], A.le(o["mag"]), o["radix"], o.get("digits", 0)))
        else:
            if o.get("far"):
                t += [("word", "far"), ("sp",)]
            if o.get("kw"):
                t += [("word", o["kw"]), ("sp",)]
            names = A.G64 if o["a"] == 64 else A.G32
            t.append(("lb",))
            first = True
            if o["b"] >= 0:
                t.append(("word", names[o["b"]]))
                first = False
            if o["i"] >= 0:
                if not first:
                    t.append(("op", "+"))
                if o["s"] == 0:
                    t.append(("word", names[o["i"]]))
                elif o["ord"] == "is":
                    t += [("word", names[o["i"]]), ("star",), ("lit", str(o["s"]))]
                else:
                    t += [("lit", str(o["s"])), ("star",), ("word", names[o["i"]])]
                first = False
            if o["hasd"]:
                if first:
                    t.append(("num", o["neg"], A.le(o["dm"]), o["dr"], 0))
                else:
                    t += [("op", "-" if o["neg"] else "+"), ("num", False, A.le(o["dm"]), o["dr"], 0)]
            t.append(("rb",))
    return t


def _case(s, mode):
    if mode == "upper":
        return s.upper()
    if mode == "mixed":
        return "".join(c.upper() if i % 2 == 0 else c.lower() for i, c in enumerate(s))
    return s


def _num(tok, st):
    _, neg, v, radix, digits = tok
    if st["radix"] == "swap":
        radix = "dec" if radix == "hex" else "hex"
        digits = 0
    if radix == "hex":
        body = "%x" % v
        if digits:
            body = body.rjust(digits, "0")
        if st["zeros"] == "lead":
            body = "00" + body
        elif st["zeros"] == "pad16":
            body = body.rjust(16, "0")
        elif st["zeros"] in ("pad17", "pad24"):
            body = body.rjust(int(st["zeros"][3:]), "0")       # more digits than 64 bits have: all of them zeros
        s = _case("0x" + body, st["case"])
        if st["case"] == "mixed":
            s = "0x" + _case(body, "mixed")
    else:
        s = ("%d" % v).rjust(digits, "0") if digits else "%d" % v
        if st["zeros"] == "lead":
            s = "00" + s
        elif st["zeros"] == "pad16":
            s = s.rjust(20, "0")
        elif st["zeros"] in ("pad17", "pad24"):
            s = s.rjust(int(st["zeros"][3:]) + 4, "0")
    return ("-" if neg else "") + s


def apply(ast, st):
    """text of the AST under style st (without the eol), and the eol string"""
    out = []
    inb = False
    toks = tokens(ast)
    for i, tk in enumerate(toks):
        k = tk[0]
        if k == "word":
            s = _case(tk[1], st["case"])
        elif k == "sep":
            s = {"space": " ", "tab": "\t", "spaces": "   "}[st["sep"]]
        elif k == "comma":
            s = st["comma"].replace("tab", "\t").replace("wide", " " * 70)
        elif k == "sp":
            s = " "
        elif k == "num":
            s = _num(tk, st)
        elif k == "lit":
            s = tk[1]
        elif k == "lb":
            s = "[" + {"spaced": " ", "wide": " " * 45}.get(st["brack"], "")
            inb = True
        elif k == "rb":
            s = {"spaced": " ", "wide": " " * 45}.get(st["brack"], "") + "]"
            inb = False
        elif k == "op":
            s = {"tight": tk[1], "spaced": " " + tk[1] + " ", "uneven": " " + tk[1], "wide": " " * 20 + tk[1] + " " * 20}[st["brack"]]
        elif k == "star":
            s = {"tight": "*", "spaced": " * ", "uneven": "*", "wide": " " * 15 + "*" + " " * 15}[st["brack"]]
        out.append(s)
    trail = re.sub(r"<([0-9a-f]{2})>", lambda m: chr(int(m.group(1), 16)), st["trail"].replace("tab", "\t").replace("wide", " " * 105))
    text = st["indent"].replace("tab", "\t").replace("wide", " " * 120) + "".join(out) + trail
    eol = {"none": "", "lf": "\n", "crlf": "\r\n"}[st["eol"]]
    return text + eol


def key(st):
    return ",".join("%s=%s" % (k, st[k]) for k in sorted(st) if st[k] != DEFAULT[k]) or "canonical"
