"""The line filter as a function (spec/AsmFilter.tla): TLC proves the lexical clauses of C16 / C10 / C09 for the model on every
string of length <= N over the alphabet Sigma, evaluates the same clauses on the function the real filter computes on that
domain (Filtered hook, harness/filtrun.c) and compares model and code string by string (also on extra boundary strings)."""
import json, os, re, itertools, subprocess, random
import alverif as A


def sigma(which):
    src = open(os.path.join(A.SPEC, "AsmFilter.tla")).read()
    m = re.search(r"Sigma%s\s*==\s*<<([^>]*)>>" % ("Small" if which == "small" else "Big"), src)
    return [int(x) for x in m.group(1).split(",")]


def domain(sig, n):
    out = []
    for ln in range(n + 1):
        for t in itertools.product(sig, repeat=ln):
            out.append(bytes(t))
    return out


def extras(rnd):
    """boundary-length and styled lines (conformance of model and code beyond the small domain)"""
    out = []
    for kept in (95, 97, 98, 99, 100, 101, 120):
        for pad in (0, 1, 7, 40):
            body = "add" + "d" * (kept - 12) + " rax, rcx"          # kept characters: everything but the blank after the comma
            out.append((" " * pad + body).encode())
            out.append((body.replace(",", " ,\t") + " " * pad + "; c").encode())
            out.append((body + "\t" * pad + "\r\nret").encode())
    for kept in (98, 99, 100):
        body = "add rax, 0x" + "0" * (kept - 12) + "12"
        for tail in ("", " ", "\t", "  \t ", " ;c", ";c", "\r\n", " \r\n", "\r", " \r", " % m", " !", " x", "\n"):
            out.append((body + tail).encode())
        for tail in (b"\x80", b"\xc3\xa9", b" \xff", b"\x80\n", b"\xe9 ;c", b"\x7f", b" \x01\x80"):
            out.append(body.encode() + tail)
    base = ["add rax, rcx", "MOV  RAX ,\t[ RBX + 4 * RCX - 0x10 ]", "\tvpaddb ymm1,ymm2,[rax]", "lea rcx, [rax+rsp] % m", "label:", "  ; only", "ret\r", "Jmp Short 0x5",
            "mov qword [rax], 0x5", "\x01\x02add rax, rcx", "add\x7frax", "add rax, \xff", "add r\x80x, rcx ; c", "a" * 99, "a" * 98 + " b", " " * 150 + "nop", "nop" + " " * 150]
    out += [b.encode("latin-1") for b in base]
    alphabet = "aAzZ[]109 \t,;%\n\r!~+-*x"
    for _ in range(3000):
        out.append("".join(rnd.choice(alphabet) for _ in range(rnd.randint(1, 40))).encode("latin-1"))
    return [x for x in out if b"\x00" not in x]


def run(tier, rnd):
    """returns (bad: list of (text, reason), judged, info)"""
    which, n = ("big", 4) if tier == "quick" else ("small", 5)
    exe = A.build_harness("filtrun")
    dom = domain(sigma(which), n)
    strings = dom + extras(rnd)
    work = os.path.join(A.BUILD, "work")
    os.makedirs(work, exist_ok=True)
    jobs = A.NCPU
    size = (len(strings) + jobs - 1) // jobs
    procs = []
    for si in range(jobs):
        part = strings[si * size:(si + 1) * size]
        if not part:
            continue
        inp = os.path.join(work, "filt-%d-%d.txt" % (os.getpid(), si))
        with open(inp, "w") as f:
            for s in part:
                f.write((s.hex() or "-") + "\n")
        outp = inp + ".out"
        procs.append((subprocess.Popen([exe], stdin=open(inp), stdout=open(outp, "w"), stderr=subprocess.DEVNULL), inp, outp, len(part)))
    tr = os.path.join(work, "filt-%d.ndjson" % os.getpid())
    total = 0
    with open(tr, "w") as f:
        for p, inp, outp, cnt in procs:
            p.wait(timeout=1200)
            lines = open(outp).read().splitlines()
            if len(lines) != cnt:
                raise A.Infra("filtrun wrote %d records for %d jobs" % (len(lines), cnt))
            f.write("\n".join(lines) + "\n")
            total += cnt
            os.unlink(inp); os.unlink(outp)
    # the clauses at the capacity of the filter buffer: model-only proof with the buffer scaled down to 3 (and 4) bytes, so that the
    # small domain contains lines that fill it exactly and lines that are one character too long
    capped = []
    for fcap, fn in ((3, 4),) if tier == "quick" else ((3, 4), (4, 5)):
        rc, out = A.tlc("AsmFilter", env={"FN": fn, "FSIG": "small", "FCHECK": 1, "FCAP": fcap}, xmx="8g", tag="filtercap-%d" % os.getpid(), timeout=3000)
        if "MODEL-FAILS" in out:
            raise A.Infra("the filter model violates its own clauses at capacity %d:\n%s" % (fcap, out[-1500:]))
        if rc != 0 or '<<"JUDGED", 0>>' not in out:
            raise A.Infra("capped AsmFilter run failed (rc=%s):\n%s" % (rc, out[-2000:]))
        capped.append({"buffer": fcap, "max_length": fn})
    rc, out = A.tlc("AsmFilter", env={"TRACE": tr, "FN": n, "FSIG": which, "FCHECK": 1}, xmx="8g", tag="filter-%d" % os.getpid(), timeout=3000)
    m = re.search(r'<<"JUDGED", (\d+)>>', out)
    if rc != 0 or not m or int(m.group(1)) != total:
        raise A.Infra("AsmFilter failed (rc=%s):\n%s" % (rc, out[-3000:]))
    os.unlink(tr)
    bad = []
    nraw = sum(1 for ln in out.splitlines() if "BAD" in ln)
    for ln in out.splitlines():
        mm = A.BAD_RE.match(ln)
        if mm:
            bad.append((strings[int(mm.group(1)) - 1], mm.group(2)))
    if nraw != len(bad):
        raise A.Infra("unparsable BAD lines in the AsmFilter output")
    return bad, total, {"alphabet": which, "max_length": n, "domain_strings": len(dom), "extra_strings": total - len(dom), "model_clauses_proved_on_domain": True, "model_clauses_proved_with_scaled_buffer": capped}
