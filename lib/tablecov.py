"""Coverage metric (never a verdict): every (mnemonic, operand-format) row of the library's instruction table
(src/instructions.c: INSTR_TABLE) occurs in at least one Supported line of the TLC-enumerated corpora.
Format 'n' (no operand or an immediate, depending on the mnemonic) is not tracked."""
import re, json, glob, os, collections
import alverif as A


def gaps():
    src = open(os.path.join(A.REPO, "src", "instructions.c")).read()
    tbl = src[src.index("INSTR_TABLE[]"):]
    rows = re.findall(r'\{\s*(?:"([a-z0-9]+)"|\{\'\\0\'\})\s*,\s*([A-Za-z0-9_]+)\s*,\s*\{([A-Za-z, ]+)\}', tbl)
    names, cur = collections.OrderedDict(), None
    for nm, key, fmts in rows:
        if nm:
            cur = nm
        if cur:
            names.setdefault(cur, []).append(fmts.replace(" ", ""))
    import linecheck
    corp = sorted({p[0] for plans in linecheck.PLANS.values() for p in plans})
    seen = collections.defaultdict(set)
    for c in corp:
        for l in open(A.corpus(c)):
            r = json.loads(l)
            if "ast" in r and r.get("status") == "Supported":
                kinds = "".join(o["k"] if o["k"] != "r" else {"g": "r", "m": "r", "x": "v", "y": "y"}[o["f"]] for o in r["ast"]["opds"])
                seen[r["ast"]["mn"]].add(kinds or "n")
    out = []
    for n, fl in names.items():
        fm = set(x for f in fl for x in f.split(",") if x not in ("NA", "n"))
        miss = sorted(f for f in fm if f not in seen.get(n, set()))
        if miss:
            out.append((n, miss))
    return len(names), sum(len(set(x for f in fl for x in f.split(",") if x not in ("NA", "n"))) for fl in names.values()), out
