"""C09: arbitrary input never causes memory errors, crashes or hangs.
(1) capacity model (spec/AsmLexical.tla): TLC enumerates abstract inputs, checks InBounds on the model; each input is rendered to
a concrete line, run on the ASan/UBSan build, and the hook-reported cursors are compared with the model and with the capacities;
(2) boundary and seeded random strings (all modes, option combinations) on the sanitizer build, judged by TLC (fault / return value)."""
import json, os, re, random, subprocess, time, collections, shutil
import alverif as A


VALID_CORPORA = ("C01", "C02a", "C02b", "C02c", "C02d", "C02e", "C02f", "C02g", "C02h", "C02i", "C02j", "C02k", "C03", "C04a", "C04b", "C04c", "C04d", "C04e", "C04f",
                 "C05", "C05m", "C10a", "C10x", "C11s", "C11t")


def capacity_inputs():
    key = A.spec_hash("AsmLexical")
    path = os.path.join(A.BUILD, "corpus", "LEX-%s.ndjson" % key)
    if not os.path.exists(path):
        os.makedirs(os.path.dirname(path), exist_ok=True)
        tmp = path + ".tmp%d" % os.getpid()
        rc, out = A.tlc("AsmLexical", env={"OUT": tmp}, tag="lex-%d" % os.getpid())
        if rc != 0 or not os.path.exists(tmp):
            raise A.Infra("capacity model failed (InBounds violated on the model or TLC error):\n" + out[-3000:])
        os.replace(tmp, path)
    return [json.loads(l) for l in open(path)]


def render_abstract(a):
    ops = ["r" + "a" * (a["rlen"] - 1)] * a["nopd"]
    if a["xlen"] > 0:
        ops.append("[rax+" + "r" + "c" * (a["xlen"] - 1) + "]")
    base = 3 + (1 if ops else 0) + sum(len(o) for o in ops) + max(0, len(ops) - 1)
    pad = a["kept"] - base
    assert pad >= 0, a
    t = "add" + "d" * pad
    if ops:
        t += " " + ",".join(ops)
    return t


def nasty_strings(rnd, n):
    """boundary and random inputs (not a decision procedure: just inputs)"""
    out = []
    regs = ["rax", "r10", "eax", "ax", "al", "ah", "xmm1", "ymm15", "mm3", "rsp", "r13d", "zmm0", "rip", "r"]
    mns = ["add", "mov", "lea", "vpaddb", "push", "jmp", "shl", "imul", "vperm2i128", "nop11", "xbegin", "movq", "setc", "bzhi", "a" * 13, "a" * 14, "a" * 15, "a" * 16, "a" * 40]
    kws = ["byte", "word", "dword", "qword", "short", "long", "far"]
    # digits, brackets, signs, stars at the edges of operands; keywords everywhere; very long numbers
    for mn in mns:
        for k in range(0, 7):
            out.append(mn + " " + ",".join(rnd.choice(regs) for _ in range(k)))
        out.append(mn + " " + "0x" + "f" * 40)
        out.append(mn + " rax, " + "9" * 40)
        out.append(mn + " [" * 3 + "rax" + "]" * 3)
        out.append(mn + " [rax+rcx*" + "8" * 12 + "]")
        out.append(mn + " [-" + "1" * 30 + "]")
        for kw in kws:
            out.append("%s %s [rax], %s rcx, %s 0x5" % (mn, kw, kw, kw))
            out.append("%s %s" % (mn, kw))
            out.append("%s %s %s %s" % (mn, kw, kw, kw))
    for b in list(range(1, 33)) + [127, 128, 255]:
        for pos in (0, 4, 12):
            s = "add rax, rcx"
            out.append(s[:pos] + chr(b) + s[pos:])
    # lines that fill the filter buffer exactly and end in short tokens (a one-character immediate, register, bracket)
    for tail in ("5", "-5", "0x5", "rax", "[rax]", "al", "5,", ",5"):
        for ln in (97, 98, 99, 100):
            for mn in ("push", "add", "mov", "jmp", "shl"):
                pad = ln - len(mn) - 1 - len(tail)
                if pad >= 0:
                    out.append(mn + "d" * pad + " " + tail)
                    out.append("a" * (ln - 1 - len(tail)) + " " + tail)
    # every tail of one to three characters of the operand alphabet behind a line that fills the filter buffer (kept characters 98, 99, 100)
    import itertools
    tails = ["".join(t) for k in (1, 2, 3) for t in itertools.product("[]-+*x01a,", repeat=k)]
    for tl in tails:
        for ln in (98, 99, 100):
            out.append("a" * (ln - 1 - len(tl)) + " " + tl)
            pad = ln - len("mov [rax+0x],") - len(tl)
            if pad > 0:
                out.append("mov [rax+0x" + "0" * pad + "]," + tl)
    # displacement and immediate literals of every width from 8 to 20 digits, hexadecimal and decimal, on several operand shapes
    for nd in range(7, 21):
        for lit in ("0x1" + "0" * (nd - 2) + "ff", "0x" + "f" * nd, "1" + "0" * (nd - 1), "9" * nd, "0x8" + "0" * (nd - 1)):
            for shape in ("mov rax, [%s+rbx]", "add qword [%s+eax*8], 0x1122334455667788", "lea rcx, [%s+rax*8+rbx]", "mov rax, [rbx+%s]", "mov rax, [rbx-%s]", "add dword [rcx+rdx*2+%s], 1", "lea rax, [%s]", "mov rax, [4*rcx+%s]", "vpaddb ymm1, ymm2, [rax+%s]",
                          "jmp [rax+r9*8+%s]", "add rax, %s", "push %s", "mov eax, %s", "jmp %s", "mov qword [rax], %s"):
                out.append(shape % lit)
    for ln in (97, 98, 99, 100, 101, 102, 150, 1000):
        out.append("mov rax, " + "1" * (ln - 9))
        out.append("mov rax, [rax+" + "r" * (ln - 15) + "]")
        out.append(" " * ln + "ret")
        out.append("x" * ln)
        out.append(";" + "c" * ln + "\nret")
    out += ["", " ", "\n", "\r\n", ";", "%", ":", "[", "]", ",", "*", "+", "-", "0x", "-0x", "add", "add ", "add ,", "add [", "add []", "add [*]", "add [+]", "add [rax*]",
            "add [*rax]", "add [rax+]", "add [rax-]", "add [rax+-1]", "add [--1]", "add [0x]", "add [rax*2*2]", "add rax,[", "add rax,]", "lea rax, [rax+rcx*]",
            "lea rax, [rax+*4]", "jmp short", "jmp long", "jmp far", "push byte", "mov rax, -", "mov rax, 0x-1", "mov rax, --1", "label:", "section", "global", "a:b:c",
            "add\trax,\trcx", "add rax rcx", "add rax;rcx", "add rax%rcx", "ADD RAX, RCX", "\x01\x02\x03", "add rax, 'a'", 'add rax, "a"', "add rax, rcx\\", "add rax, @"]
    alphabet = "abcdefgrsxyz0189 ,[]+-*x:;%\t\n.#'\"\\_"
    gram = ["add", "mov", "lea", "rax", "rcx", "r8", "xmm1", "ymm2", "[", "]", ",", " ", "+", "-", "*", "0x", "1", "2", "4", "8", "9", "f", "byte", "qword", "short", "far", "\n", ";"]
    while len(out) < n:
        if rnd.random() < 0.5:
            out.append("".join(rnd.choice(gram) for _ in range(rnd.randint(1, 24))))
        else:
            out.append("".join(rnd.choice(alphabet) if rnd.random() < 0.95 else chr(rnd.randint(1, 255)) for _ in range(rnd.randint(1, 140))))
    return out


# the longest encodings the library can be made to emit (16 and 17 bytes)
LONGEST = ["and qword [r8d+r9d*8+0x12345678], 0x1122334455667788", "add qword [eax+ecx*8+0x12345678], 0x1122334455667788", "test qword [r8d+r9d*8+0x12345678], 0x1122334455667788",
           "test qword [rsp+0x100], 0xffffffff", "sbb qword [eax+ebx*8+0x12345678], 0x1122334455667788", "imul r8, [r8d+r9d*4+0x12345], 0x12345678",
           "vperm2i128 ymm1, ymm2, [eax+ecx*4+0x12345], 0x5", "mov qword [r8d+r9d*4+0x12345], 0x12345678"]


def report_settings(prop, found):
    seen = collections.Counter()
    for p, r, evname, sc, evs in found:
        seen[(p, r)] += 1
        if seen[(p, r)] > 3:
            continue
        path = A.write_replay(prop, "%s-%s" % (sc.sid, r), {"property": p, "reason": r, "sid": sc.sid, "script": sc.lines, "meta": sc.meta, "events": evs})
        print("VIOLATION property=%s replay=%s  (%s at %s in %s)" % (p, path, r, evname, sc.sid))
    for (p, r), n in seen.items():
        if n > 3:
            print("  (+%d more histories with %s)" % (n - 3, r))
    return len(found)


def settings_only(prop, rp):
    import apicheck
    found, judged, n = apicheck.settings_stage("quick", random.Random(1), replay=rp)
    nv = report_settings(prop, found)
    print("%s replay: %d events judged, %d violations" % (prop, judged, nv))
    return 1 if nv else 0


def run(prop, tier, replay=None):
    t0 = time.time()
    A.build("san")
    A.build_harness("linerun", variant="san")
    rnd = random.Random(A.SEED * 991 + 9)
    rp = json.load(open(replay)) if replay else None
    if rp and "script" in rp:
        return settings_only(prop, rp)
    if replay:
        recs = [{k: v for k, v in rp["record"].items() if k not in ("fault", "runs")}]
    else:
        inputs = capacity_inputs()
        if tier == "quick":
            idx = list(range(len(inputs)))
            rnd.shuffle(idx)
            keep = set(idx[:2500])
            inputs = [x for k, x in enumerate(inputs) if k in keep or x["ab"]["kept"] in (98, 99, 100, 101)]
        recs = [{"id": "cap-%d" % k, "prop": "C09", "status": "Unconstrained", "text": render_abstract(x["ab"]), "ab": x["ab"], "model": x["model"]} for k, x in enumerate(inputs)]
        for k, s in enumerate(nasty_strings(rnd, 13500 if tier == "quick" else 300000)):
            recs.append({"id": "str-%d" % k, "prop": "C09", "status": "Unconstrained", "text": s.replace("\x00", " ")})
        # well-formed lines are inputs too: a class-covering sample of every TLC-enumerated corpus (the encoder paths run instrumented)
        nval = 0
        for cname in VALID_CORPORA:
            crecs = [json.loads(l) for l in open(A.corpus(cname))]
            for r in A.sample(crecs, 450 if tier == "quick" else 25000, A.SEED + 9):
                txt = A.toktext(r["toks"]) if "toks" in r else A.render(r["ast"])
                recs.append({"id": "val-%d" % nval, "prop": "C09", "status": "Unconstrained", "text": txt})
                nval += 1
    os.environ["ASAN_OPTIONS"] = "detect_leaks=0:abort_on_error=1"
    os.environ["UBSAN_OPTIONS"] = "halt_on_error=1:abort_on_error=1"
    events = A.run_lines(recs, ctx="solo0,mid", modes="plain,fit,count", opts="two", variant="san")
    if not replay:
        # the same build with the debug listing switched on: the longest encodings and every kind of well-formed line (what is listed is not
        # judged, that listing it touches no memory it should not is - the sanitizers watch)
        os.environ["LINERUN_DEBUG"] = "1"
        try:
            dbg = [dict(r, id="dbg-" + r["id"]) for r in recs if r["id"].startswith("val-")][::3] + \
                  [{"id": "dbg-long-%d" % k, "prop": "C09", "status": "Unconstrained", "text": t} for k, t in enumerate(LONGEST)]
            events += A.run_lines(dbg, ctx="solo0,mid", modes="plain,fit,count", opts="two", variant="san")
        finally:
            del os.environ["LINERUN_DEBUG"]
    bad, judged = A.monitor([dict(e, runs=e["runs"]) for e in events], module="AsmLexical", keys=("id", "runs", "fault", "model"))
    byid = {e["id"]: e for e in events}
    drift, mine = collections.Counter(), []
    for (eid, reason, l, _, _) in bad:
        if reason.startswith("mech:"):
            drift[reason] += 1
            if drift[reason] <= 2:
                A.write_replay(prop, "drift-%s" % eid, {"record": {k: v for k, v in byid[eid].items() if k != "runs"}, "observed": byid[eid]["runs"][:2]})
        else:
            mine.append((byid[eid], reason.split(":", 1)[1]))
    known = [e for e in A.load_known() if e["property"] == prop and e.get("status") == "open"]
    viol = [(e, r) for e, r in mine if not any(r in k["reason"] and re.search(k["match"].get("text", ".*"), e["text"]) for k in known)]
    seen = collections.Counter()
    for e, r in viol:
        seen[r] += 1
        if seen[r] > 3:
            continue
        path = A.write_replay(prop, "%s-%s" % (e["id"], r), {"property": prop, "reason": r, "record": {k: v for k, v in e.items() if k != "runs"}, "observed": e["runs"][:2]})
        print("VIOLATION property=%s replay=%s  (%s on input %r)" % (prop, path, r, e["text"][:80]))
    for r, n in seen.items():
        if n > 3:
            print("  (+%d more inputs with %s)" % (n - 3, r))
    for r, n in drift.items():
        print("MODEL-DRIFT: %s (%d inputs): the hook-reported cursors differ from the capacity model although they stay inside their buffers" % (r, n))
    # "under any option, chunk and mode setting": API histories with chunk sizes at every integer boundary, judged by spec/ApiTrace.tla
    nset, nsetjudged = 0, 0
    if not replay:
        import apicheck
        found, nsetjudged, nset = apicheck.settings_stage(tier, rnd)
        nviol_set = report_settings(prop, found)
        viol += [None] * nviol_set
    wall = time.time() - t0
    ncap = sum(1 for e in events if "ab" in e)
    cov = {"evaluations": judged, "distinct_nontrivial": len({e["text"] for e in events}),
           "rule": "(setting_histories: API histories with chunk sizes at every integer boundary - 0, 1, 2, around 2^31 and 2^32, multiples of 2^32, 2^62, 2^63, 2^64-1 - set and/or passed to counting calls and followed by further calls, judged event by event by spec/ApiTrace.tla; a fault is a C09 violation.) TLC checks InBounds on the capacity model of spec/AsmLexical.tla for every abstract input (kept characters x operands x token lengths) and emits them; each is rendered "
                   "to a concrete line and run (fresh instance, plain/fitting/counting, solo and inside a program) on the ASan+UBSan build with the cursor hooks installed; TLC compares the "
                   "reported cursors with the model and with the buffer capacities. Plus boundary strings, seeded random strings (character-level and grammar-level) and a class-covering sample of every TLC-enumerated corpus of well-formed and ill-formed lines (C01-C05, C10, C11). A case is one "
                   "input string; distinct_nontrivial counts distinct strings.",
           "samples": [{"text": e["text"][:120], "model": e.get("model"), "hooks": e["runs"][0]["hk"] if e["runs"] else None} for e in events[:2] + events[-2:]],
           "capacity_inputs": ncap, "strings": sum(1 for e in events if e["id"].startswith("str-")), "corpus_lines": sum(1 for e in events if e["id"].startswith("val-")), "model_drift": dict(drift), "exhaustive": False,
           "setting_histories": nset, "setting_events_judged": nsetjudged}
    if not replay:
        A.write_evidence(prop, tier, "exploration", cov, wall, len(viol),
                         ["out-of-bounds reads by libc string functions are only seen by ASan (observation channel)", "the input space is infinite: boundary + random strings, not exhaustive",
                          "hangs are detected by a 5 s watchdog per input"])
    print("%s %s: %d inputs judged (%d from the capacity model), %d drift, %d violations, %.1fs" % (prop, tier, judged, ncap, sum(drift.values()), len(viol), wall))
    return 1 if viol else 0
