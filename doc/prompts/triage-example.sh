#!/bin/bash
cd /verif
t() { TRYSEED_WT=1 bin/tryseed "$@" > /tmp/wt/try-$1.log 2>&1; }
( t C01k C01 C01 C04; t C06k C06 C06 C13; t C11k C11 C11 C02; t C16k C16 C16 C11 ) &
( t C02k C02 C02; t C07k C07 C07; t C12k C12 C12 C11 C02; t C17k C17 C17 ) &
( t C03k C03 C03; t C08k C08 C08 C09; t C13k C13 C13 C15; t C18k C18 C18 ) &
( t C04k C04 C04 C06; t C09k C09 C09; t C14k C14 C14 C19; t C19k C19 C19 ) &
( t C05k C05 C05 C11; t C10k C10 C10 C16; t C15k C15 C15 C12; t C20k C20 C20 ) &
wait
echo DONE > /tmp/wt/triage11.done
