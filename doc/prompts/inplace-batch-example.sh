#!/bin/bash
cd /verif
run() { bin/tryseed "$@" > /tmp/wt/final-$1.log 2>&1; git -C /repo checkout -- . ; }
run C01k C01 C04; run C02k C02 C02; run C03k C03 C03; run C04k C04 C06; run C05k C05 C05
run C06k C06 C13; run C07k C07 C07; run C08k C08 C09; run C09k C09 C09; run C10k C10 C16
run C11k C11 C11; run C12k C12 C11; run C13k C13 C13; run C14k C14 C19; run C15k C15 C12
run C16k C16 C16; run C17k C17 C17; run C18k C18 C18; run C19k C19 C19; run C20k C20 C20
echo ALLDONE > /tmp/wt/round11.done
